#!/usr/bin/env python3
"""Driver of the model-based verification of toml-rs/toml (see DESIGN.md section 6).

usage: check.py <Cnn> [--tier quick|thorough] [--replay PATH] [--selftest]
exit 0: property held on everything explored; 1: VIOLATION line(s) printed; 2: tool error.
"""
import sys, os, json, time, argparse, traceback

sys.path.insert(0, os.path.join(os.path.dirname(os.path.abspath(__file__)), "lib"))
from vlib import core  # noqa: E402


def main():
    ap = argparse.ArgumentParser()
    ap.add_argument("prop")
    ap.add_argument("--tier", default=os.environ.get("VERIF_TIER", "quick"), choices=["quick", "thorough"])
    ap.add_argument("--replay")
    ap.add_argument("--selftest", action="store_true")
    a = ap.parse_args()
    seed = int(os.environ.get("VERIF_SEED", "1") or "1")
    prop = a.prop.upper()
    try:
        import importlib
        try:
            mod = importlib.import_module("vlib.%s" % prop.lower())
        except ModuleNotFoundError:
            print("no check for %s" % prop)
            sys.exit(2)
        ctx = core.Ctx(prop, a.tier, seed)
        if a.replay:
            rc = mod.replay(ctx, a.replay)
        elif a.selftest:
            rc = mod.selftest(ctx)
        else:
            rc = mod.run(ctx)
        sys.exit(rc)
    except core.ToolError as e:
        print("TOOL-ERROR: %s" % e)
        sys.exit(2)
    except SystemExit:
        raise
    except Exception:
        traceback.print_exc()
        sys.exit(2)


if __name__ == "__main__":
    main()
