//! `depth` events (C05): nesting patterns from Depth.tla instantiated at the measured recursion limit and run
//! through parse / print / debug / clone / drop / deserialize on a 2 MiB thread stack.
use crate::gen::{out_writer, read_ndjson};
use crate::Args;
use serde_json::{json, Value as J};
use std::io::Write;
use std::str::FromStr;

fn size(nm: &str, l: usize) -> usize {
    match nm {
        "0" => 0,
        "1" => 1,
        "2" => 2,
        "H" => (l - 1) / 2,
        "L-2" => l - 2,
        "L-1" => l - 1,
        "L" => l,
        "L+1" => l + 1,
        "4L" => 4 * l,
        _ => panic!("size name"),
    }
}

fn path(n: usize) -> String {
    vec!["k"; n].join(".")
}

pub fn render(p: &J, l: usize) -> String {
    let mut s = String::new();
    let hs = size(p["hs"].as_str().unwrap(), l);
    if hs > 0 {
        if p["hk"] == "stairs" {
            // hs headers, each extending the previous path by l - 20 new keys (distinct names per stage)
            let w = l - 20;
            let mut pathv: Vec<String> = Vec::new();
            for stage in 0..hs {
                for _ in 0..w {
                    pathv.push(format!("k{stage}"));
                }
                s.push_str(&format!("[{}]\n", pathv.join(".")));
            }
        } else if p["hk"] == "chain" {
            // every prefix is an array of tables: [[k]], [[k.k]], ... (an array and a table per level)
            for n in 1..=hs {
                s.push_str(&format!("[[{}]]\n", path(n)));
            }
        } else if p["hk"] == "aot" {
            s.push_str(&format!("[[{}]]\n", path(hs)));
        } else {
            s.push_str(&format!("[{}]\n", path(hs)));
        }
    }
    s.push_str(&path(size(p["ks"].as_str().unwrap(), l)));
    s.push_str(" = ");
    let mut close = String::new();
    for layer in p["layers"].as_array().unwrap() {
        let n = size(layer["n"].as_str().unwrap(), l);
        if layer["c"] == "AE" {
            // an empty array as the first sibling at every level
            for _ in 0..n {
                s.push_str("[[], ");
            }
            let mut c = String::new();
            for _ in 0..n {
                c.push(']');
            }
            close = c + &close;
        } else if layer["c"] == "IE" {
            for _ in 0..n {
                s.push_str("{e={}, k=");
            }
            let mut c = String::new();
            for _ in 0..n {
                c.push('}');
            }
            close = c + &close;
        } else if layer["c"] == "A" {
            for _ in 0..n {
                s.push('[');
            }
            let mut c = String::new();
            for _ in 0..n {
                c.push(']');
            }
            close = c + &close;
        } else {
            let sg = size(layer["s"].as_str().unwrap(), l);
            let kp = path(sg);
            for _ in 0..n {
                s.push('{');
                s.push_str(&kp);
                s.push('=');
            }
            let mut c = String::new();
            for _ in 0..n {
                c.push('}');
            }
            close = c + &close;
        }
    }
    s.push('1');
    s.push_str(&close);
    s.push('\n');
    s
}

/// nesting depth of a document, measured without recursion
fn depth_of(doc: &toml_edit::DocumentMut) -> usize {
    enum N<'a> {
        I(&'a toml_edit::Item),
        V(&'a toml_edit::Value),
    }
    let mut max = 0;
    let mut stack: Vec<(N<'_>, usize)> = vec![(N::I(doc.as_item()), 0)];
    while let Some((n, d)) = stack.pop() {
        if d > max {
            max = d;
        }
        match n {
            N::I(toml_edit::Item::Table(t)) => {
                for (_, i) in t.iter() {
                    stack.push((N::I(i), d + 1));
                }
            }
            N::I(toml_edit::Item::ArrayOfTables(a)) => {
                for t in a.iter() {
                    for (_, i) in t.iter() {
                        stack.push((N::I(i), d + 2));
                    }
                }
            }
            N::I(toml_edit::Item::Value(v)) => stack.push((N::V(v), d)),
            N::I(toml_edit::Item::None) => {}
            N::V(toml_edit::Value::Array(a)) => {
                for v in a.iter() {
                    stack.push((N::V(v), d + 1));
                }
            }
            N::V(toml_edit::Value::InlineTable(t)) => {
                for (_, v) in t.iter() {
                    stack.push((N::V(v), d + 1));
                }
            }
            N::V(_) => {}
        }
    }
    max.saturating_sub(1)
}

fn measure_limit() -> usize {
    for n in 1..100000 {
        let t = format!("k = {}1{}\n", "[".repeat(n), "]".repeat(n));
        if toml_edit::DocumentMut::from_str(&t).is_err() {
            return n;
        }
    }
    0
}

fn run_one(text: String) -> J {
    // everything below happens on this thread's 2 MiB stack
    let mut failed: Vec<String> = Vec::new();
    let parsed = toml_edit::DocumentMut::from_str(&text);
    let (res, depth, limit_err) = match &parsed {
        Ok(d) => ("ok", depth_of(d), false),
        Err(e) => ("err", 0, e.to_string().contains("recursion")),
    };
    macro_rules! op {
        ($name:expr, $e:expr) => {
            if std::panic::catch_unwind(std::panic::AssertUnwindSafe(|| {
                let _ = $e;
            }))
            .is_err()
            {
                failed.push($name.to_string());
            }
        };
    }
    if let Ok(d) = parsed {
        op!("to_string", d.to_string());
        op!("debug", format!("{d:?}"));
        op!("clone", d.clone());
        op!("from_document<Value>", toml_edit::de::from_document::<toml::Value>(d.clone()));
        op!("drop", drop(d));
    }
    op!("ImDocument+into_mut", toml_edit::ImDocument::parse(text.as_str()).map(|d| d.into_mut().to_string()));
    op!("toml::from_str<Value>", toml::from_str::<toml::Value>(&text).map(|v| (v.to_string(), format!("{v:?}"), v.clone())));
    op!("toml::from_str<Table>", toml::from_str::<toml::Table>(&text).map(|v| toml::to_string(&v).is_ok()));
    op!("Value::from_str", text.split_once(" = ").map(|(_, v)| toml_edit::Value::from_str(v.trim()).map(|v| (v.to_string(), format!("{v:?}")))));
    json!({"res": res, "depth": depth, "limit_err": limit_err, "ops_failed": failed})
}

/// --in patterns.ndjson --progress FILE --start K
pub fn depth_events(args: &Args) {
    let recs = read_ndjson(args.req("in"));
    let progress = args.req("progress").to_string();
    let start = args.num("start", 0) as usize;
    let mut out = out_writer(args);
    let l = measure_limit();
    for (i, p) in recs.iter().enumerate().skip(start) {
        let text = render(p, l);
        let _ = std::fs::write(&progress, format!("{i}"));
        out.flush().ok();
        let len = text.len();
        let h = std::thread::Builder::new().stack_size(2 << 20).spawn(move || run_one(text)).expect("spawn");
        let r = match h.join() {
            Ok(j) => j,
            Err(_) => json!({"res": "panic", "depth": 0, "limit_err": false, "ops_failed": ["thread panicked"]}),
        };
        writeln!(out, "{}", json!({"ev": "depth", "id": format!("pat{i}"), "pat": p, "L": l, "len": len,
                                   "res": r["res"], "depth": r["depth"], "limit_err": r["limit_err"], "ops_failed": r["ops_failed"]})).unwrap();
    }
    let _ = std::fs::write(&progress, "done");
}

/// --in patterns.ndjson --out texts.ndjson : the patterns as texts (inputs for the entry-point exploration of C04)
pub fn depth_render(args: &Args) {
    let recs = read_ndjson(args.req("in"));
    let mut out = out_writer(args);
    let l = measure_limit();
    for (i, p) in recs.iter().enumerate() {
        let text = render(p, l);
        if text.len() > 40_000 {
            continue;
        }
        writeln!(out, "{}", json!({"id": format!("depth-pattern{i}"), "text": crate::proj::cps(&text)})).unwrap();
    }
}
