//! Record `roundtrip` events (C03): print(parse(text)) and print(parse(print(parse(text)))).
use crate::gen::{out_writer, read_ndjson};
use crate::proj::{cps, from_cps};
use crate::Args;
use serde_json::{json, Value as J};
use std::io::Write;
use std::panic::{catch_unwind, AssertUnwindSafe};
use std::str::FromStr;

fn rt_edit(text: &str) -> Result<(String, String), String> {
    let d = toml_edit::DocumentMut::from_str(text).map_err(|e| e.to_string())?;
    let out = d.to_string();
    let out2 = match toml_edit::DocumentMut::from_str(&out) {
        Ok(d2) => d2.to_string(),
        Err(e) => format!("<<reparse failed: {e}>>"),
    };
    Ok((out, out2))
}

fn rt_into_mut(text: &str) -> Result<(String, String), String> {
    let d = toml_edit::ImDocument::parse(text).map_err(|e| e.to_string())?.into_mut();
    let out = d.to_string();
    let out2 = match toml_edit::ImDocument::parse(out.as_str()) {
        Ok(d2) => d2.into_mut().to_string(),
        Err(e) => format!("<<reparse failed: {e}>>"),
    };
    Ok((out, out2))
}

pub fn roundtrip_events(args: &Args) {
    let recs = read_ndjson(args.req("in"));
    let mut out = out_writer(args);
    for r in &recs {
        if r.get("text").is_none() {
            continue;
        }
        let text = from_cps(&r["text"]);
        let mut groups: Vec<(Vec<&str>, String, J, J)> = Vec::new();
        // ImDocument itself has no document printer (its Display is Table's): it is printed via into_mut
        let fes: [(&str, fn(&str) -> Result<(String, String), String>); 2] =
            [("edit", rt_edit), ("into_mut", rt_into_mut)];
        for (fe, f) in fes {
            let res = catch_unwind(AssertUnwindSafe(|| f(&text)));
            let (res, o, o2) = match res {
                Ok(Ok((a, b))) => ("ok".to_string(), cps(&a), cps(&b)),
                Ok(Err(_)) => ("err".to_string(), json!([]), json!([])),
                Err(_) => ("panic".to_string(), json!([]), json!([])),
            };
            if let Some(g) = groups.iter_mut().find(|g| g.1 == res && g.2 == o && g.3 == o2) {
                g.0.push(fe);
            } else {
                groups.push((vec![fe], res, o, o2));
            }
        }
        let rs: Vec<J> = groups
            .into_iter()
            .map(|(fe, res, o, o2)| json!({"fe": fe, "res": res, "out": o, "out2": o2}))
            .collect();
        writeln!(out, "{}", json!({"ev": "roundtrip", "id": r["id"], "text": r["text"], "r": rs})).unwrap();
    }
}
