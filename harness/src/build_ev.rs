//! `build` events (C06): abstract trees chosen by TLC (MCBuild) assembled through the construction API by
//! several routes, printed twice.
use crate::gen::{out_writer, read_ndjson};
use crate::proj::{cps, from_cps};
use crate::Args;
use serde_json::{json, Value as J};
use std::io::Write;
use std::panic::{catch_unwind, AssertUnwindSafe};
use toml_edit::{Array, ArrayOfTables, DocumentMut, InlineTable, Item, Key, Table, Value};

fn digits(d: &J) -> String {
    d.as_array().unwrap().iter().map(|x| char::from(b'0' + x.as_u64().unwrap() as u8)).collect()
}

fn leaf_f64(v: &J) -> f64 {
    let neg = v["neg"].as_bool().unwrap();
    let x = match v["c"].as_str().unwrap() {
        "nan" => f64::NAN,
        "inf" => f64::INFINITY,
        "zero" => 0.0,
        _ => {
            let d = digits(&v["d"]);
            let s = format!("{}.{}e{}", &d[..1], if d.len() > 1 { &d[1..] } else { "0" }, v["e"].as_i64().unwrap());
            s.parse::<f64>().expect("float")
        }
    };
    if neg {
        -x
    } else {
        x
    }
}

fn leaf_dt(v: &J) -> toml_datetime::Datetime {
    let date = v["date"].as_array().filter(|a| !a.is_empty()).map(|a| toml_datetime::Date {
        year: a[0].as_u64().unwrap() as u16,
        month: a[1].as_u64().unwrap() as u8,
        day: a[2].as_u64().unwrap() as u8,
    });
    let time = v["time"].as_array().filter(|a| !a.is_empty()).map(|a| toml_datetime::Time {
        hour: a[0].as_u64().unwrap() as u8,
        minute: a[1].as_u64().unwrap() as u8,
        second: a[2].as_u64().unwrap() as u8,
        nanosecond: a[3].as_u64().unwrap() as u32,
    });
    let offset = match v["off"]["t"].as_str().unwrap() {
        "Z" => Some(toml_datetime::Offset::Z),
        "O" => Some(toml_datetime::Offset::Custom { minutes: v["off"]["m"].as_i64().unwrap() as i16 }),
        _ => None,
    };
    toml_datetime::Datetime { date, time, offset }
}

fn leaf_edit(v: &J) -> Value {
    match v["k"].as_str().unwrap() {
        "s" => Value::from(from_cps(&v["v"])),
        "i" => {
            let d = digits(&v["d"]);
            let m: i128 = d.parse().unwrap();
            Value::from((if v["neg"].as_bool().unwrap() { -m } else { m }) as i64)
        }
        "f" => Value::from(leaf_f64(v)),
        "b" => Value::from(v["v"].as_bool().unwrap()),
        "dt" => Value::from(leaf_dt(v)),
        k => panic!("leaf kind {k}"),
    }
}

fn leaf_toml(v: &J) -> toml::Value {
    match v["k"].as_str().unwrap() {
        "s" => toml::Value::String(from_cps(&v["v"])),
        "i" => {
            let d = digits(&v["d"]);
            let m: i128 = d.parse().unwrap();
            toml::Value::Integer((if v["neg"].as_bool().unwrap() { -m } else { m }) as i64)
        }
        "f" => toml::Value::Float(leaf_f64(v)),
        "b" => toml::Value::Boolean(v["v"].as_bool().unwrap()),
        "dt" => toml::Value::Datetime(leaf_dt(v)),
        k => panic!("leaf kind {k}"),
    }
}

// ---- route 1: insert / push -------------------------------------------------------------------
fn value_insert(s: &J) -> Value {
    match s["k"].as_str().unwrap() {
        "L" => leaf_edit(&s["v"]),
        "A" => {
            let mut a = Array::new();
            for x in s["v"].as_array().unwrap() {
                a.push(value_insert(x));
            }
            Value::Array(a)
        }
        "I" => {
            let mut t = InlineTable::new();
            for e in s["v"].as_array().unwrap() {
                t.insert(from_cps(&e["key"]), value_insert(&e["val"]));
            }
            Value::InlineTable(t)
        }
        k => panic!("not a value shape {k}"),
    }
}
fn item_insert(s: &J) -> Item {
    match s["k"].as_str().unwrap() {
        "T" => Item::Table(table_insert(s)),
        "AT" => {
            let mut a = ArrayOfTables::new();
            for t in s["v"].as_array().unwrap() {
                a.push(table_insert(t));
            }
            Item::ArrayOfTables(a)
        }
        _ => Item::Value(value_insert(s)),
    }
}
fn table_insert(s: &J) -> Table {
    let mut t = Table::new();
    for e in s["v"].as_array().unwrap() {
        t.insert(&from_cps(&e["key"]), item_insert(&e["val"]));
    }
    t
}

// ---- route 2: index assignment (IndexMut) -----------------------------------------------------
fn table_index(s: &J) -> Table {
    let mut t = Table::new();
    for e in s["v"].as_array().unwrap() {
        let k = from_cps(&e["key"]);
        let child = match e["val"]["k"].as_str().unwrap() {
            "T" => Item::Table(table_index(&e["val"])),
            "AT" => {
                let a: ArrayOfTables = e["val"]["v"].as_array().unwrap().iter().map(table_index).collect();
                Item::ArrayOfTables(a)
            }
            _ => toml_edit::value(value_insert(&e["val"])),
        };
        t[k.as_str()] = child;
    }
    t
}

// ---- route 3: FromIterator / Extend / From impls ----------------------------------------------
fn value_collect(s: &J) -> Value {
    match s["k"].as_str().unwrap() {
        "L" => leaf_edit(&s["v"]),
        "A" => Value::Array(s["v"].as_array().unwrap().iter().map(value_collect).collect::<Array>()),
        "I" => Value::InlineTable(s["v"].as_array().unwrap().iter().map(|e| (Key::new(from_cps(&e["key"])), value_collect(&e["val"]))).collect::<InlineTable>()),
        k => panic!("not a value shape {k}"),
    }
}
fn table_collect(s: &J) -> Table {
    let mut t = Table::new();
    t.extend(s["v"].as_array().unwrap().iter().map(|e| {
        let item = match e["val"]["k"].as_str().unwrap() {
            "T" => Item::Table(table_collect(&e["val"])),
            "AT" => Item::ArrayOfTables(e["val"]["v"].as_array().unwrap().iter().map(table_collect).collect::<ArrayOfTables>()),
            _ => Item::from(value_collect(&e["val"])),
        };
        (from_cps(&e["key"]), item)
    }));
    t
}

// ---- route 4: toml::Value / toml::Table + Display ---------------------------------------------
fn toml_build(s: &J) -> toml::Value {
    match s["k"].as_str().unwrap() {
        "L" => leaf_toml(&s["v"]),
        "A" | "AT" => toml::Value::Array(s["v"].as_array().unwrap().iter().map(toml_build).collect()),
        _ => {
            let mut t = toml::Table::new();
            for e in s["v"].as_array().unwrap() {
                t.insert(from_cps(&e["key"]), toml_build(&e["val"]));
            }
            toml::Value::Table(t)
        }
    }
}

fn doc_of(t: Table) -> DocumentMut {
    let mut d = DocumentMut::new();
    *d.as_table_mut() = t;
    d
}

fn route(name: &str, ordered: bool, f: impl FnOnce() -> (String, String)) -> J {
    let as_value = name.contains("root value");
    match catch_unwind(AssertUnwindSafe(f)) {
        Ok((a, b)) => json!({"route": name, "res": "ok", "ordered": ordered, "as_value": as_value, "text": cps(&a), "text2": cps(&b)}),
        Err(_) => json!({"route": name, "res": "panic", "ordered": ordered, "as_value": as_value, "text": [], "text2": []}),
    }
}

/// --in shapes.ndjson
pub fn build_events(args: &Args) {
    let recs = read_ndjson(args.req("in"));
    let mut out = out_writer(args);
    for (n, r) in recs.iter().enumerate() {
        let s = &r["shape"];
        let mut routes = Vec::new();
        routes.push(route("insert/push", true, || {
            let d = doc_of(table_insert(s));
            (d.to_string(), doc_of(table_insert(s)).clone().to_string())
        }));
        // the same tree with the formatting switches of the API turned on everywhere (not raw decor: a trailing
        // comma on every array, also the empty ones; trailing commas must never make the text invalid)
        routes.push(route("insert/push + trailing commas", true, || {
            struct Commas;
            impl toml_edit::visit_mut::VisitMut for Commas {
                fn visit_array_mut(&mut self, node: &mut toml_edit::Array) {
                    node.set_trailing_comma(true);
                    toml_edit::visit_mut::visit_array_mut(self, node);
                }
            }
            let mut d = doc_of(table_insert(s));
            toml_edit::visit_mut::VisitMut::visit_document_mut(&mut Commas, &mut d);
            (d.to_string(), d.clone().to_string())
        }));
        routes.push(route("index-assign", true, || {
            let d = doc_of(table_index(s));
            (d.to_string(), d.to_string())
        }));
        routes.push(route("collect/extend/from", true, || {
            let d = doc_of(table_collect(s));
            (d.to_string(), d.clone().to_string())
        }));
        routes.push(route("toml::Table Display", false, || {
            let v = toml_build(s);
            let t = v.as_table().expect("root table").clone();
            (t.to_string(), toml_build(s).as_table().unwrap().to_string())
        }));
        routes.push(route("toml::Value Display (root value)", false, || {
            let v = toml_build(s);
            (v.to_string(), v.clone().to_string())
        }));
        // Value Display of a single key's value inside `x = <value>` (inline rendering of toml::Value)
        writeln!(out, "{}", json!({"ev": "build", "id": format!("shape{n}"), "shape": s, "r": routes})).unwrap();
    }
}
