//! `serde` events (C07, C13, C17): values of a family of derive(Serialize, Deserialize) types covering the serde
//! shapes TOML supports (and the documented unsupported ones), through every encoding and decoding route.
use crate::gen::out_writer;
use crate::proj::{self, cps};
use crate::sdm::capture;
use crate::Args;
use rand::rngs::StdRng;
use rand::{Rng, SeedableRng};
use serde::de::DeserializeOwned;
use serde::{Deserialize, Serialize};
use serde_json::{json, Value as J};
use std::collections::BTreeMap;
use std::io::Write;
use std::panic::{catch_unwind, AssertUnwindSafe};
use toml_datetime::Datetime;

// ---------------------------------------------------------------------------------------------
// leaf pools
const STRS: &[&str] = &[
    "", "a", "a b", "\"", "'", "\\", "\n", "\r\n", "\t", "\u{0}", "\u{7f}", "\u{1f}", "#", "é", "\u{1F600}", "'''", "\"\"\"",
    "true", "1", "1979-05-27", "a.b", "key = 1", "[x]", "\u{feff}", "line1\nline2", "  ", "a\u{1}b", "\\n", "end\\",
];
const KEYS: &[&str] = &["a", "b", "k", "", "a b", "1", "a.b", "\"", "é", "true", "\n", "'", "#"];
// date-times are built from their fields, not parsed: Datetime::from_str is code under test
// (date, time (h, m, s, ns), offset: None = local, Some(None) = Z, Some(Some(minutes)))
type DtSpec = (Option<(u16, u8, u8)>, Option<(u8, u8, u8, u32)>, Option<Option<i16>>);
const DTS: &[DtSpec] = &[
    (Some((1979, 5, 27)), Some((7, 32, 0, 0)), Some(None)),
    (Some((1979, 5, 27)), Some((7, 32, 0, 999_999_999)), Some(Some(-420))),
    (Some((1979, 5, 27)), Some((7, 32, 0, 0)), None),
    (Some((1979, 5, 27)), None, None),
    (None, Some((7, 32, 0, 0)), None),
    (None, Some((0, 0, 0, 500_000_000)), None),
    (Some((2000, 2, 29)), Some((23, 59, 60, 0)), Some(Some(1439))),
    (Some((1, 1, 1)), Some((0, 0, 0, 0)), Some(None)),
    (Some((9999, 12, 31)), None, None),
    // every fraction digit significant, the smallest fraction
    (Some((2024, 2, 29)), Some((23, 59, 59, 123_456_789)), Some(Some(-90))),
    (None, Some((0, 0, 0, 1)), None),
    (Some((1979, 5, 27)), Some((0, 32, 0, 120_000_000)), Some(Some(330))),
    // a numeric offset of zero is not `Z`; the extreme offsets
    (Some((1987, 7, 5)), Some((17, 45, 56, 0)), Some(Some(0))),
    (Some((1987, 7, 5)), Some((17, 45, 56, 0)), Some(Some(-1439))),
];

fn g_str(r: &mut StdRng) -> String {
    if r.gen_range(0..3) == 0 {
        // combinations of the byte classes the writers distinguish
        let n = r.gen_range(1..6);
        (0..n).map(|_| crate::api_ev::QALPHA[r.gen_range(0..crate::api_ev::QALPHA.len())]).collect()
    } else {
        STRS[r.gen_range(0..STRS.len())].to_string()
    }
}
fn g_key(r: &mut StdRng) -> String {
    KEYS[r.gen_range(0..KEYS.len())].to_string()
}
fn g_i64(r: &mut StdRng) -> i64 {
    match r.gen_range(0..8) {
        0 => 0,
        1 => -1,
        2 => i64::MAX,
        3 => i64::MIN,
        4 => 1 << r.gen_range(0..63),
        5 => r.gen(),
        _ => r.gen_range(-100..100),
    }
}
fn g_f64(r: &mut StdRng) -> f64 {
    match r.gen_range(0..12) {
        0 => 0.0,
        1 => -0.0,
        2 => f64::INFINITY,
        3 => f64::NEG_INFINITY,
        4 => f64::NAN,
        5 => f64::MAX,
        6 => f64::MIN_POSITIVE,
        7 => 5e-324,
        8 => 1e22,
        9 => f64::from_bits(r.gen()),
        10 => (r.gen_range(-1000..1000) as f64) / 8.0,
        _ => 1.5,
    }
}
fn g_dt(r: &mut StdRng) -> Datetime {
    let (d, t, o) = DTS[r.gen_range(0..DTS.len())];
    Datetime {
        date: d.map(|(year, month, day)| toml_datetime::Date { year, month, day }),
        time: t.map(|(hour, minute, second, nanosecond)| toml_datetime::Time { hour, minute, second, nanosecond }),
        offset: o.map(|x| match x {
            None => toml_datetime::Offset::Z,
            Some(minutes) => toml_datetime::Offset::Custom { minutes },
        }),
    }
}
fn g_char(r: &mut StdRng) -> char {
    ['a', '"', '\'', '\\', '\n', '\0', 'é', '\u{1F600}', ' '][r.gen_range(0..9)]
}
fn g_len(r: &mut StdRng) -> usize {
    [0, 0, 1, 1, 2, 3][r.gen_range(0..6)]
}
fn g_vec<T>(r: &mut StdRng, mut f: impl FnMut(&mut StdRng) -> T) -> Vec<T> {
    (0..g_len(r)).map(|_| f(r)).collect()
}
fn g_map<T>(r: &mut StdRng, mut f: impl FnMut(&mut StdRng) -> T) -> BTreeMap<String, T> {
    (0..g_len(r)).map(|_| (g_key(r), f(r))).collect()
}
fn g_opt<T>(r: &mut StdRng, f: impl FnOnce(&mut StdRng) -> T) -> Option<T> {
    if r.gen_range(0..3) == 0 {
        None
    } else {
        Some(f(r))
    }
}

// ---------------------------------------------------------------------------------------------
// the type family
pub trait Gen: Sized {
    fn gen(r: &mut StdRng) -> Self;
}

#[derive(Serialize, Deserialize, PartialEq, Debug, Clone)]
pub struct Inner {
    x: i64,
    s: String,
    o: Option<bool>,
}
impl Gen for Inner {
    fn gen(r: &mut StdRng) -> Self {
        Inner { x: g_i64(r), s: g_str(r), o: g_opt(r, |r| r.gen()) }
    }
}

#[derive(Serialize, Deserialize, PartialEq, Eq, PartialOrd, Ord, Debug, Clone, Copy)]
pub enum UnitEnum {
    Alpha,
    Beta,
    #[serde(rename = "ga mma")]
    Gamma,
}
fn g_unit(r: &mut StdRng) -> UnitEnum {
    [UnitEnum::Alpha, UnitEnum::Beta, UnitEnum::Gamma][r.gen_range(0..3)]
}

#[derive(Serialize, Deserialize, PartialEq, Debug, Clone)]
pub enum E {
    Unit,
    New(i64),
    NewS(String),
    Tup(i64, String),
    Struct { x: i64, y: Option<String> },
    NewInner(Inner),
    NewVec(Vec<i64>),
    Pair(Inner, Inner),
}
impl Gen for E {
    fn gen(r: &mut StdRng) -> Self {
        match r.gen_range(0..8) {
            7 => E::Pair(Inner::gen(r), Inner::gen(r)),
            0 => E::Unit,
            1 => E::New(g_i64(r)),
            2 => E::NewS(g_str(r)),
            3 => E::Tup(g_i64(r), g_str(r)),
            4 => E::Struct { x: g_i64(r), y: g_opt(r, g_str) },
            5 => E::NewInner(Inner::gen(r)),
            _ => E::NewVec(g_vec(r, g_i64)),
        }
    }
}

#[derive(Serialize, Deserialize, PartialEq, Debug, Clone)]
pub struct Leafs {
    b: bool,
    i: i64,
    i8_: i8,
    i16_: i16,
    i32_: i32,
    u8_: u8,
    u16_: u16,
    u32_: u32,
    u64_: u64,
    f: f64,
    f32_: f32,
    c: char,
    s: String,
    d: Datetime,
}
impl Gen for Leafs {
    fn gen(r: &mut StdRng) -> Self {
        Leafs {
            b: r.gen(),
            i: g_i64(r),
            i8_: [i8::MIN, -1, 0, i8::MAX][r.gen_range(0..4)],
            i16_: [i16::MIN, 0, i16::MAX][r.gen_range(0..3)],
            i32_: [i32::MIN, 7, i32::MAX][r.gen_range(0..3)],
            u8_: [0, u8::MAX][r.gen_range(0..2)],
            u16_: [0, u16::MAX][r.gen_range(0..2)],
            u32_: [0, u32::MAX][r.gen_range(0..2)],
            u64_: [0, 1, i64::MAX as u64, i64::MAX as u64 + 1, u64::MAX][r.gen_range(0..5)],
            f: g_f64(r),
            f32_: [0.0f32, -0.0, 1.5, f32::MAX, f32::MIN_POSITIVE, 0.1, f32::INFINITY, f32::NAN][r.gen_range(0..8)],
            c: g_char(r),
            s: g_str(r),
            d: g_dt(r),
        }
    }
}

#[derive(Serialize, Deserialize, PartialEq, Debug, Clone)]
pub struct Opts {
    a: Option<i64>,
    s: Option<String>,
    t: Option<Inner>,
    v: Option<Vec<i64>>,
    d: Option<Datetime>,
    e: Option<E>,
}
impl Gen for Opts {
    fn gen(r: &mut StdRng) -> Self {
        Opts { a: g_opt(r, g_i64), s: g_opt(r, g_str), t: g_opt(r, Inner::gen), v: g_opt(r, |r| g_vec(r, g_i64)), d: g_opt(r, g_dt), e: g_opt(r, E::gen) }
    }
}

#[derive(Serialize, Deserialize, PartialEq, Debug, Clone)]
pub struct Seqs {
    v: Vec<i64>,
    vv: Vec<Vec<String>>,
    t: (i64, String, bool),
    vt: Vec<Inner>,
    ve: Vec<E>,
    vd: Vec<Datetime>,
    vf: Vec<f64>,
    z: i64,
}
impl Gen for Seqs {
    fn gen(r: &mut StdRng) -> Self {
        Seqs {
            v: g_vec(r, g_i64),
            vv: g_vec(r, |r| g_vec(r, g_str)),
            t: (g_i64(r), g_str(r), r.gen()),
            vt: g_vec(r, Inner::gen),
            ve: g_vec(r, E::gen),
            vd: g_vec(r, g_dt),
            vf: g_vec(r, g_f64),
            z: g_i64(r),
        }
    }
}

#[derive(Serialize, Deserialize, PartialEq, Debug, Clone)]
pub struct Maps {
    m: BTreeMap<String, i64>,
    mm: BTreeMap<String, Inner>,
    me: BTreeMap<UnitEnum, i64>,
    mv: BTreeMap<String, Vec<E>>,
    mo: BTreeMap<String, BTreeMap<String, String>>,
    last: String,
}
impl Gen for Maps {
    fn gen(r: &mut StdRng) -> Self {
        Maps {
            m: g_map(r, g_i64),
            mm: g_map(r, Inner::gen),
            me: (0..g_len(r)).map(|_| (g_unit(r), g_i64(r))).collect(),
            mv: g_map(r, |r| g_vec(r, E::gen)),
            mo: g_map(r, |r| g_map(r, g_str)),
            last: g_str(r),
        }
    }
}

#[derive(Serialize, Deserialize, PartialEq, Debug, Clone)]
pub struct NewI(i64);
#[derive(Serialize, Deserialize, PartialEq, Debug, Clone)]
pub struct NewT(Inner);
#[derive(Serialize, Deserialize, PartialEq, Debug, Clone)]
pub struct TupS(i64, String);

#[derive(Serialize, Deserialize, PartialEq, Debug, Clone)]
pub struct Nested {
    n: NewI,
    nt: NewT,
    ts: TupS,
    inner: Inner,
    list: Vec<Inner>,
    opt: Option<Inner>,
    deep: BTreeMap<String, Vec<BTreeMap<String, E>>>,
    u: UnitEnum,
    tail: bool,
}
impl Gen for Nested {
    fn gen(r: &mut StdRng) -> Self {
        Nested {
            n: NewI(g_i64(r)),
            nt: NewT(Inner::gen(r)),
            ts: TupS(g_i64(r), g_str(r)),
            inner: Inner::gen(r),
            list: g_vec(r, Inner::gen),
            opt: g_opt(r, Inner::gen),
            deep: g_map(r, |r| g_vec(r, |r| g_map(r, E::gen))),
            u: g_unit(r),
            tail: r.gen(),
        }
    }
}

// documented unsupported shapes
#[derive(Serialize, Deserialize, PartialEq, Debug, Clone)]
pub struct VecOpt {
    v: Vec<Option<i64>>,
    w: Vec<()>,
}
impl Gen for VecOpt {
    fn gen(r: &mut StdRng) -> Self {
        VecOpt { v: g_vec(r, |r| g_opt(r, g_i64)), w: g_vec(r, |_| ()) }
    }
}
#[derive(Serialize, Deserialize, PartialEq, Debug, Clone)]
pub struct IntKeys {
    m: BTreeMap<i64, i64>,
    b: BTreeMap<bool, i64>,
}
impl Gen for IntKeys {
    fn gen(r: &mut StdRng) -> Self {
        IntKeys { m: (0..g_len(r)).map(|_| (r.gen_range(-3..3), 1)).collect(), b: (0..g_len(r).min(1)).map(|_| (true, 1)).collect() }
    }
}
#[derive(Serialize, Deserialize, PartialEq, Debug, Clone)]
pub struct Wide {
    a: i128,
    b: u128,
}
impl Gen for Wide {
    fn gen(r: &mut StdRng) -> Self {
        Wide { a: [0, -1, i64::MAX as i128 + 1, i128::MIN][r.gen_range(0..4)], b: [0, 1, u64::MAX as u128, u128::MAX][r.gen_range(0..4)] }
    }
}
#[derive(Serialize, Deserialize, PartialEq, Debug, Clone)]
pub struct MapVecOpt {
    m: BTreeMap<String, Vec<Option<i64>>>,
    n: BTreeMap<String, Inner>,
}
impl Gen for MapVecOpt {
    fn gen(r: &mut StdRng) -> Self {
        MapVecOpt { m: g_map(r, |r| g_vec(r, |r| g_opt(r, g_i64))), n: g_map(r, Inner::gen) }
    }
}
#[derive(Serialize, Deserialize, PartialEq, Debug, Clone)]
pub struct FlatPart {
    values: Vec<Option<i64>>,
    name: String,
}
#[derive(Serialize, Deserialize, PartialEq, Debug, Clone)]
pub struct Flat {
    id: i64,
    #[serde(flatten)]
    part: FlatPart,
}
impl Gen for Flat {
    fn gen(r: &mut StdRng) -> Self {
        Flat { id: g_i64(r), part: FlatPart { values: g_vec(r, |r| g_opt(r, g_i64)), name: g_str(r) } }
    }
}
#[derive(Serialize, Deserialize, PartialEq, Debug, Clone)]
pub struct Entry {
    tags: Vec<String>,
    meta: Inner,
    more: Vec<Inner>,
}
#[derive(Serialize, Deserialize, PartialEq, Debug, Clone)]
pub struct Rows {
    name: String,
    rows: Vec<Vec<Entry>>,
    mixed: (Vec<i64>, Entry, i64),
}
fn g_entry(r: &mut StdRng) -> Entry {
    Entry { tags: g_vec(r, g_str), meta: Inner::gen(r), more: g_vec(r, Inner::gen) }
}
impl Gen for Rows {
    fn gen(r: &mut StdRng) -> Self {
        Rows { name: g_str(r), rows: g_vec(r, |r| g_vec(r, g_entry)), mixed: (g_vec(r, g_i64), g_entry(r), g_i64(r)) }
    }
}
// roots that are not tables
#[derive(Serialize, Deserialize, PartialEq, Debug, Clone)]
pub struct RootSeq(Vec<i64>);
impl Gen for RootSeq {
    fn gen(r: &mut StdRng) -> Self {
        RootSeq(g_vec(r, g_i64))
    }
}
impl Gen for NewT {
    fn gen(r: &mut StdRng) -> Self {
        NewT(Inner::gen(r))
    }
}
impl Gen for NewI {
    fn gen(r: &mut StdRng) -> Self {
        NewI(g_i64(r))
    }
}

/// toml::Value trees whose keys make sorted and insertion order interleave scalars, arrays, arrays of tables
/// and tables (C17)
fn g_value(r: &mut StdRng, depth: u32) -> toml::Value {
    use toml::Value as V;
    match r.gen_range(0..if depth == 0 { 7 } else { 11 }) {
        6 if depth == 0 => V::Array(vec![V::Table(g_table(r, 0)), V::Integer(g_i64(r)), V::Array(vec![V::Table(g_table(r, 0))])]),
        10 => V::Array(vec![V::Table(g_table(r, depth - 1)), V::String(g_str(r))]),
        0 => V::Integer(g_i64(r)),
        1 => V::String(g_str(r)),
        2 => V::Boolean(r.gen()),
        3 => V::Float(g_f64(r)),
        4 => V::Datetime(g_dt(r)),
        5 => V::Array(g_vec(r, |r| V::Integer(g_i64(r)))),
        6 => V::Array(g_vec(r, |r| V::Table(g_table(r, depth - 1)))),
        7 => V::Array(g_vec(r, |r| g_value(r, depth - 1))),
        _ => V::Table(g_table(r, depth - 1)),
    }
}
fn g_table(r: &mut StdRng, depth: u32) -> toml::Table {
    let mut t = toml::Table::new();
    let names = ["a", "b", "c", "d", "e", "z", "A", "k", "", "a b"];
    let n = r.gen_range(0..6);
    for _ in 0..n {
        let k = names[r.gen_range(0..names.len())];
        t.insert(k.to_string(), g_value(r, depth));
    }
    t
}
#[derive(Serialize, Deserialize, PartialEq, Debug, Clone)]
#[serde(transparent)]
pub struct ValueRoot(toml::Table);
impl Gen for ValueRoot {
    fn gen(r: &mut StdRng) -> Self {
        ValueRoot(g_table(r, 2))
    }
}

/// The shape of a `toml::Value` read through its public accessors (not through its own `Serialize` impl, which
/// is code under test).
fn sdm_of_value(v: &toml::Value) -> J {
    use toml::Value as V;
    match v {
        V::String(s) => json!({"k": "str", "v": cps(s)}),
        V::Integer(i) => {
            let d: Vec<u32> = (*i as i128).unsigned_abs().to_string().bytes().map(|b| (b - b'0') as u32).collect();
            json!({"k": "int", "w": "i64", "neg": *i < 0, "d": d})
        }
        V::Float(f) => json!({"k": "float", "w": "f64", "f": proj::float_j(*f)}),
        V::Boolean(b) => json!({"k": "bool", "v": b}),
        V::Datetime(d) => json!({"k": "dt", "v": proj::dt_j(d)}),
        V::Array(a) => json!({"k": "seq", "v": a.iter().map(sdm_of_value).collect::<Vec<_>>()}),
        V::Table(t) => sdm_of_table(t),
    }
}
fn sdm_of_table(t: &toml::Table) -> J {
    json!({"k": "map", "v": t.iter().map(|(k, v)| json!({"key": {"k": "str", "v": cps(k)}, "val": sdm_of_value(v)})).collect::<Vec<_>>()})
}

pub trait Shape {
    fn shape(&self) -> J;
}
macro_rules! shape_by_capture {
    ($($t:ty),*) => { $(impl Shape for $t { fn shape(&self) -> J { capture(self) } })* };
}
shape_by_capture!(Leafs, Opts, Seqs, Maps, Nested, Inner, NewT, NewI, E, VecOpt, IntKeys, Wide, RootSeq, MapVecOpt, Flat, Rows, BTreeMap<String, E>);
impl Shape for ValueRoot {
    fn shape(&self) -> J {
        json!({"k": "newtype", "v": sdm_of_table(&self.0)})
    }
}

// ---------------------------------------------------------------------------------------------
fn enc_route(name: &str, f: impl FnOnce() -> Result<String, String>) -> J {
    match catch_unwind(AssertUnwindSafe(f)) {
        Ok(Ok(s)) => json!({"route": name, "res": "ok", "text": cps(&s)}),
        Ok(Err(_)) => json!({"route": name, "res": "err", "text": []}),
        Err(_) => json!({"route": name, "res": "panic", "text": []}),
    }
}

fn dec_route<T: PartialEq>(name: &str, orig: &T, f: impl FnOnce() -> Result<T, String>) -> J {
    match catch_unwind(AssertUnwindSafe(f)) {
        Ok(Ok(v)) => json!({"route": name, "res": "ok", "same": &v == orig}),
        Ok(Err(e)) => json!({"route": name, "res": "err", "same": false, "msg": e.chars().take(120).collect::<String>()}),
        Err(_) => json!({"route": name, "res": "panic", "same": false}),
    }
}

/// NaN != NaN: compare through the captured shape instead of PartialEq
#[derive(Debug, Clone)]
struct ByShape<T>(T);
impl<T: Shape> PartialEq for ByShape<T> {
    fn eq(&self, o: &Self) -> bool {
        // the sign of a NaN is documented as discarded by the serde serializers
        fn norm(mut j: J) -> J {
            fn walk(j: &mut J) {
                match j {
                    J::Object(m) => {
                        if m.get("c").and_then(|c| c.as_str()) == Some("nan") {
                            m.insert("neg".into(), json!(false));
                        }
                        // map equality does not depend on iteration order
                        if m.get("k").and_then(|c| c.as_str()) == Some("map") {
                            if let Some(J::Array(es)) = m.get_mut("v") {
                                es.sort_by_key(|e| e["key"].to_string());
                            }
                        }
                        for (_, v) in m.iter_mut() {
                            walk(v);
                        }
                    }
                    J::Array(a) => a.iter_mut().for_each(walk),
                    _ => {}
                }
            }
            walk(&mut j);
            j
        }
        norm(self.0.shape()) == norm(o.0.shape())
    }
}

static SEQ: std::sync::atomic::AtomicU64 = std::sync::atomic::AtomicU64::new(0);

fn one<T: Serialize + DeserializeOwned + Clone + Shape>(out: &mut dyn Write, ty: &str, n: u64, v: T) {
    let sdm = v.shape();
    let orig = ByShape(v.clone());
    let mut enc = Vec::new();
    enc.push(enc_route("toml::to_string", || toml::to_string(&v).map_err(|e| e.to_string())));
    enc.push(enc_route("toml::to_string_pretty", || toml::to_string_pretty(&v).map_err(|e| e.to_string())));
    enc.push(enc_route("toml_edit::ser::to_string", || toml_edit::ser::to_string(&v).map_err(|e| e.to_string())));
    enc.push(enc_route("toml_edit::ser::to_string_pretty", || toml_edit::ser::to_string_pretty(&v).map_err(|e| e.to_string())));
    enc.push(enc_route("toml_edit::ser::to_document", || toml_edit::ser::to_document(&v).map(|d| d.to_string()).map_err(|e| e.to_string())));
    enc.push(enc_route("toml::Table::try_from", || toml::Table::try_from(&v).map(|t| t.to_string()).map_err(|e| e.to_string())));
    enc.push(enc_route("toml::Value::try_from", || {
        toml::Value::try_from(&v).map_err(|e| e.to_string()).and_then(|t| match t {
            toml::Value::Table(t) => Ok(t.to_string()),
            other => Err(format!("not a table: {}", other.type_str())),
        })
    }));
    // determinism and one-step fixed point on the primary route (C17)
    let again = enc_route("toml::to_string#2", || toml::to_string(&v).map_err(|e| e.to_string()));
    let mut dec = Vec::new();
    let mut fixed = json!({"res": "none", "text": []});
    // a panic of the encoder is data (recorded by the `enc` routes above), never the end of the driver
    if let Ok(Ok(text)) = catch_unwind(AssertUnwindSafe(|| toml::to_string(&v))) {
        dec.push(dec_route("toml::from_str", &orig, || toml::from_str::<T>(&text).map(ByShape).map_err(|e| e.to_string())));
        dec.push(dec_route("toml_edit::de::from_str", &orig, || toml_edit::de::from_str::<T>(&text).map(ByShape).map_err(|e| e.to_string())));
        dec.push(dec_route("toml_edit::de::from_slice", &orig, || toml_edit::de::from_slice::<T>(text.as_bytes()).map(ByShape).map_err(|e| e.to_string())));
        dec.push(dec_route("from_document(DocumentMut)", &orig, || {
            let d: toml_edit::DocumentMut = text.parse().map_err(|e: toml_edit::TomlError| e.to_string())?;
            toml_edit::de::from_document::<T>(d).map(ByShape).map_err(|e| e.to_string())
        }));
        dec.push(dec_route("from_document(ImDocument)", &orig, || {
            let d = toml_edit::ImDocument::parse(text.clone()).map_err(|e| e.to_string())?;
            toml_edit::de::from_document::<T>(d).map(ByShape).map_err(|e| e.to_string())
        }));
        dec.push(dec_route("Value::try_into", &orig, || {
            let val: toml::Value = toml::from_str(&text).map_err(|e| e.to_string())?;
            val.try_into::<T>().map(ByShape).map_err(|e| e.to_string())
        }));
        dec.push(dec_route("Table::try_into", &orig, || {
            let val: toml::Table = toml::from_str(&text).map_err(|e| e.to_string())?;
            val.try_into::<T>().map(ByShape).map_err(|e| e.to_string())
        }));
        dec.push(dec_route("try_from+try_into", &orig, || {
            let val = toml::Value::try_from(&v).map_err(|e| e.to_string())?;
            val.try_into::<T>().map(ByShape).map_err(|e| e.to_string())
        }));
        // pretty output must decode to the same value
        dec.push(dec_route("from_str(to_string_pretty)", &orig, || {
            let p = toml::to_string_pretty(&v).map_err(|e| e.to_string())?;
            toml::from_str::<T>(&p).map(ByShape).map_err(|e| e.to_string())
        }));
        dec.push(dec_route("from_str(toml_edit to_string)", &orig, || {
            let p = toml_edit::ser::to_string(&v).map_err(|e| e.to_string())?;
            toml::from_str::<T>(&p).map(ByShape).map_err(|e| e.to_string())
        }));
        fixed = match catch_unwind(AssertUnwindSafe(|| toml::from_str::<T>(&text).map_err(|e| e.to_string()).and_then(|b| toml::to_string(&b).map_err(|e| e.to_string())))) {
            Ok(Ok(s)) => json!({"res": "ok", "text": cps(&s)}),
            Ok(Err(_)) => json!({"res": "err", "text": []}),
            Err(_) => json!({"res": "panic", "text": []}),
        };
    }
    // try_from tree against text (C13, encoding direction)
    let tf = match catch_unwind(AssertUnwindSafe(|| toml::Value::try_from(&v))) {
        Ok(Ok(val)) => json!({"res": "ok", "tree": proj::toml_value(&val)}),
        Ok(Err(_)) => json!({"res": "err", "tree": proj::dummy()}),
        Err(_) => json!({"res": "panic", "tree": proj::dummy()}),
    };
    // the single-value routes: the value as one TOML value (also for types that are not a table at the root)
    let mut vdec = Vec::new();
    if let Ok(Ok(val)) = catch_unwind(AssertUnwindSafe(|| toml::Value::try_from(&v))) {
        let vt = val.to_string();
        vdec.push(dec_route("toml::de::ValueDeserializer", &orig, || T::deserialize(toml::de::ValueDeserializer::new(&vt)).map(ByShape).map_err(|e| e.to_string())));
        vdec.push(dec_route("toml_edit::de::ValueDeserializer", &orig, || {
            let d = vt.parse::<toml_edit::de::ValueDeserializer>().map_err(|e| e.to_string())?;
            T::deserialize(d).map(ByShape).map_err(|e| e.to_string())
        }));
        vdec.push(dec_route("Value::try_into (any root)", &orig, || val.clone().try_into::<T>().map(ByShape).map_err(|e| e.to_string())));
    }
    writeln!(out, "{}", json!({"ev": "serde", "id": format!("{ty}#{n}.{}", SEQ.fetch_add(1, std::sync::atomic::Ordering::Relaxed)), "ty": ty, "sdm": sdm, "enc": enc, "again": again,
                               "dec": dec, "vdec": vdec, "fixed": fixed, "try_from": tf, "ordered": cfg!(feature = "preserve_order")})).unwrap();
}

/// --seed S --n N
pub fn serde_events(args: &Args) {
    let mut r = StdRng::seed_from_u64(args.num("seed", 1));
    let n = args.num("n", 50);
    let mut out = out_writer(args);
    for i in 0..n {
        one(&mut out, "Leafs", i, Leafs::gen(&mut r));
        one(&mut out, "Opts", i, Opts::gen(&mut r));
        one(&mut out, "Seqs", i, Seqs::gen(&mut r));
        one(&mut out, "Maps", i, Maps::gen(&mut r));
        one(&mut out, "Nested", i, Nested::gen(&mut r));
        one(&mut out, "Inner", i, Inner::gen(&mut r));
        one(&mut out, "NewT", i, NewT::gen(&mut r));
        one(&mut out, "Rows", i, Rows::gen(&mut r));
        for _ in 0..6 {
            one(&mut out, "Value", i, ValueRoot::gen(&mut r));
        }
        if i % 4 == 0 {
            one(&mut out, "VecOpt", i, VecOpt::gen(&mut r));
            one(&mut out, "MapVecOpt", i, MapVecOpt::gen(&mut r));
            one(&mut out, "Flat", i, Flat::gen(&mut r));
            one(&mut out, "IntKeys", i, IntKeys::gen(&mut r));
            one(&mut out, "Wide", i, Wide::gen(&mut r));
            one(&mut out, "RootSeq", i, RootSeq::gen(&mut r));
            one(&mut out, "NewI", i, NewI::gen(&mut r));
            one(&mut out, "E", i, E::gen(&mut r));
            one(&mut out, "MapRoot", i, g_map(&mut r, E::gen));
        }
    }
}
