//! `digest` records (C18): one line per battery item with digests of what the library returned, to be compared
//! across feature configurations.
use crate::gen::{out_writer, read_ndjson};
use crate::proj::{self, from_cps};
use crate::Args;
use serde_json::{json, Value as J};
use std::io::Write;
use std::panic::{catch_unwind, AssertUnwindSafe};
use std::str::FromStr;

use crate::digest_parse::h;

fn sorted(v: &J) -> J {
    match v {
        J::Object(m) if m.get("k").and_then(|k| k.as_str()) == Some("t") => {
            let mut es: Vec<J> = m["v"].as_array().unwrap().iter().map(|e| json!({"key": e["key"], "val": sorted(&e["val"])})).collect();
            es.sort_by_key(|e| e["key"].to_string());
            json!({"k": "t", "v": es})
        }
        J::Object(m) if m.get("k").and_then(|k| k.as_str()) == Some("a") => {
            json!({"k": "a", "v": m["v"].as_array().unwrap().iter().map(sorted).collect::<Vec<_>>()})
        }
        other => other.clone(),
    }
}

/// --in texts.ndjson
pub fn digest(args: &Args) {
    let recs = read_ndjson(args.req("in"));
    let mut out = out_writer(args);
    writeln!(out, "{}", json!({"id": "probe", "d_probe": crate::digest_parse::try_from_probe()})).unwrap();
    for r in &recs {
        if r.get("text").is_none() {
            continue;
        }
        let text = from_cps(&r["text"]);
        // format-preserving side: verdict, tree, reprint
        let edit = catch_unwind(AssertUnwindSafe(|| match toml_edit::DocumentMut::from_str(&text) {
            Ok(d) => json!({"res": "ok", "tree": proj::edit_table(d.as_table(), false), "print": d.to_string()}),
            Err(e) => json!({"res": "err", "span": e.span().map(|s| vec![s.start, s.end]), "msg": e.message()}),
        }))
        .unwrap_or(json!({"res": "panic"}));
        let d_parse = crate::digest_parse::parse_only(&text);
        // serde side
        let toml_r = catch_unwind(AssertUnwindSafe(|| match toml::from_str::<toml::Table>(&text) {
            Ok(t) => {
                let tree = proj::toml_table(&t);
                (json!({"res": "ok", "tree": sorted(&tree), "reparse": toml::from_str::<toml::Table>(&t.to_string()).map(|u| u == t).unwrap_or(false)}),
                 json!({"res": "ok", "tree": tree, "print": t.to_string(), "pretty": toml::to_string_pretty(&t).unwrap_or_default()}))
            }
            Err(e) => (json!({"res": "err", "span": e.span().map(|s| vec![s.start, s.end]), "msg": e.message()}), json!({"res": "err"})),
        }))
        .unwrap_or((json!({"res": "panic"}), json!({"res": "panic"})));
        // ORDER judged against a reference: the keys of the root toml::Table after parsing, and after
        // remove(second key) / insert(new key) / re-insert(first key), compared with an insertion-ordered and a
        // sorted reference list computed here
        let order_law = catch_unwind(AssertUnwindSafe(|| {
            let (Ok(t), Ok(d)) = (toml::from_str::<toml::Table>(&text), toml_edit::DocumentMut::from_str(&text)) else { return "none".to_string() };
            let doc_order: Vec<String> = d.as_table().iter().map(|(k, _)| k.to_string()).collect();
            let classify = |got: &Vec<String>, ins: &Vec<String>| {
                let mut so = ins.clone();
                so.sort();
                match (got == ins, got == &so) {
                    (true, true) => "both",
                    (true, false) => "insertion",
                    (false, true) => "sorted",
                    (false, false) => "other",
                }
            };
            let parsed: Vec<String> = t.keys().cloned().collect();
            let a = classify(&parsed, &doc_order);
            // a small history on the map
            let mut t2 = t.clone();
            let mut reference = doc_order.clone();
            if reference.len() >= 3 {
                let k = reference[1].clone();
                t2.remove(&k);
                reference.remove(1);
            }
            t2.insert("~new".to_string(), toml::Value::Integer(1));
            reference.push("~new".to_string());
            if let Some(k0) = reference.first().cloned() {
                t2.insert(k0, toml::Value::Integer(2)); // existing key: keeps its place
            }
            // bulk insertion: an existing key takes the new value and keeps its place, a new key is appended
            if let Some(k0) = reference.first().cloned() {
                t2.extend([(k0, toml::Value::Integer(7)), ("~new2".to_string(), toml::Value::Integer(8))]);
                reference.push("~new2".to_string());
            }
            let after: Vec<String> = t2.keys().cloned().collect();
            let b = classify(&after, &reference);
            // the content after the history does not depend on the configuration
            format!("{a}/{b}#{}", h(&sorted(&proj::toml_table(&t2))))
        }))
        .unwrap_or("panic".to_string());
        let (order_law, hist_content) = match order_law.split_once('#') {
            Some((a, b)) => (a.to_string(), b.to_string()),
            None => (order_law.clone(), "none".to_string()),
        };
        writeln!(out, "{}", json!({"id": r["id"], "order_law": order_law, "d_hist_content": hist_content, "d_edit": h(&edit), "d_parse": d_parse, "d_toml_sorted": h(&toml_r.0), "d_toml_order": h(&toml_r.1),
                                   "accepted": edit["res"] == "ok"})).unwrap();
    }
}
