//! `hist` events (C16): replay call histories chosen by TLC (MCContainers) or by a seeded random driver on the
//! real containers, recording each call's return value and the full observation after it.
use crate::gen::{out_writer, read_ndjson};
use crate::Args;
use serde_json::{json, Value as J};
use std::io::Write;
use std::panic::{catch_unwind, AssertUnwindSafe};
use toml_edit::{Array, ArrayOfTables, InlineTable, Item, Key, Table, TableLike, Value};

const KEYS: [&str; 3] = ["a", "b", "c"];

fn item_of(v: i64) -> Item {
    match v {
        3 => Item::Table(Table::new()),
        4 => Item::ArrayOfTables(ArrayOfTables::new()),
        5 => Item::Value(Value::Array(Array::new())),
        n => Item::Value(Value::from(n)),
    }
}

fn value_of(v: i64) -> Value {
    match v {
        5 => Value::Array(Array::new()),
        6 => Value::InlineTable(InlineTable::new()),
        n => Value::from(n),
    }
}

fn id_value(v: &Value) -> i64 {
    match v {
        Value::Integer(i) => *i.value(),
        Value::Array(_) => 5,
        Value::InlineTable(_) => 6,
        _ => 99,
    }
}

fn id_item(i: &Item) -> i64 {
    match i {
        Item::None => 0,
        Item::Value(v) => id_value(v),
        Item::Table(_) => 3,
        Item::ArrayOfTables(_) => 4,
    }
}

fn id_opt_item(i: Option<&Item>) -> i64 {
    i.map(id_item).unwrap_or(0)
}

fn keyset(o: &J, f: &str) -> Vec<String> {
    o[f].as_array().map(|a| a.iter().map(|x| x.as_str().unwrap_or("").to_string()).collect()).unwrap_or_default()
}

fn intset(o: &J, f: &str) -> Vec<i64> {
    o[f].as_array().map(|a| a.iter().map(|x| x.as_i64().unwrap_or(0)).collect()).unwrap_or_default()
}

// ------------------------------------------------------------------------------------------------
// editable tables: the container lives inside an Item so that Item-level indexing can be used too
fn printed_keys(item: &Item) -> J {
    // keys that show up in the printed output (top level of the container)
    let text = match item {
        Item::Table(t) => t.to_string(),
        Item::Value(v) => format!("x = {v}\n"),
        _ => String::new(),
    };
    let parsed = text.parse::<toml_edit::DocumentMut>();
    match parsed {
        Ok(d) => {
            let tl: Option<&dyn TableLike> = match item {
                Item::Table(_) => Some(d.as_table()),
                _ => d.get("x").and_then(|i| i.as_table_like()),
            };
            let mut ks: Vec<String> = tl.map(|t| t.iter().map(|(k, _)| k.to_string()).collect()).unwrap_or_default();
            ks.sort();
            json!(ks)
        }
        Err(_) => json!(["<<unparsable>>"]),
    }
}

fn obs_edit(kind: &str, item: &Item) -> J {
    let mut get = serde_json::Map::new();
    let mut has = serde_json::Map::new();
    let (len, empty, iter): (usize, bool, Vec<J>) = match kind {
        "table" => {
            let t = item.as_table().expect("table");
            for k in KEYS {
                get.insert(k.into(), json!(id_opt_item(t.get(k))));
                has.insert(k.into(), json!(t.contains_key(k)));
            }
            (t.len(), t.is_empty(), t.iter().map(|(k, v)| json!([k, id_item(v)])).collect())
        }
        "inline" => {
            let t = item.as_inline_table().expect("inline");
            for k in KEYS {
                get.insert(k.into(), json!(t.get(k).map(id_value).unwrap_or(0)));
                has.insert(k.into(), json!(t.contains_key(k)));
            }
            (t.len(), t.is_empty(), t.iter().map(|(k, v)| json!([k, id_value(v)])).collect())
        }
        _ => {
            let t = item.as_table_like().expect("table like");
            for k in KEYS {
                get.insert(k.into(), json!(id_opt_item(t.get(k))));
                has.insert(k.into(), json!(t.contains_key(k)));
            }
            (t.len(), t.is_empty(), t.iter().map(|(k, v)| json!([k, id_item(v)])).collect())
        }
    };
    // the owned iterator (IntoIterator) must agree with the borrowed one
    let owned: Vec<J> = match item.clone() {
        Item::Table(t) if kind == "table" => t.into_iter().map(|(k, v)| json!([k.as_str(), id_item(&v)])).collect(),
        Item::Value(Value::InlineTable(t)) if kind == "inline" => t.into_iter().map(|(k, v)| json!([k.as_str(), id_value(&v)])).collect(),
        _ => iter.clone(),
    };
    // the mutable iterator shows the same entries (placeholders are entries for nobody)
    let mut copy = item.clone();
    let iter_mut: Vec<J> = match (&mut copy, kind) {
        (Item::Table(t), "table") => t.iter_mut().map(|(k, v)| json!([k.get(), id_item(v)])).collect(),
        (Item::Value(Value::InlineTable(t)), "inline") => t.iter_mut().map(|(k, v)| json!([k.get(), id_value(v)])).collect(),
        (other, _) => match other.as_table_like_mut() {
            Some(t) => t.iter_mut().map(|(k, v)| json!([k.get(), id_item(v)])).collect(),
            None => iter.clone(),
        },
    };
    let rev: Vec<J> = iter.iter().rev().cloned().collect();
    json!({"len": len, "empty": empty, "iter": iter, "owned": owned, "iter_mut": iter_mut, "rev": rev, "get": get, "has": has, "printed": printed_keys(item)})
}

fn apply_edit(kind: &str, item: &mut Item, o: &J) -> i64 {
    let op = o["op"].as_str().unwrap();
    let k = o["k"].as_str().unwrap_or("");
    let v = o["v"].as_i64().unwrap_or(0);
    match op {
        "index_mut" => {
            let _ = &mut item[k];
            return -1;
        }
        "index_assign" => {
            item[k] = item_of(v);
            return -1;
        }
        _ => {}
    }
    match kind {
        "table" => {
            let t = item.as_table_mut().expect("table");
            match op {
                "insert" => id_opt_item(t.insert(k, item_of(v)).as_ref()),
                "insert_formatted" => id_opt_item(t.insert_formatted(&Key::new(k), item_of(v)).as_ref()),
                "remove" => id_opt_item(t.remove(k).as_ref()),
                "remove_entry" => t.remove_entry(k).map(|(_, i)| id_item(&i)).unwrap_or(0),
                "entry_or_insert" => id_item(t.entry(k).or_insert(item_of(v))),
                "entry_insert" => match t.entry(k) {
                    toml_edit::Entry::Occupied(mut e) => id_item(&e.insert(item_of(v))),
                    toml_edit::Entry::Vacant(e) => {
                        e.insert(item_of(v));
                        0
                    }
                },
                "entry_remove" => match t.entry(k) {
                    toml_edit::Entry::Occupied(e) => id_item(&e.remove()),
                    toml_edit::Entry::Vacant(_) => 0,
                },
                "retain" => {
                    let ks = keyset(o, "ks");
                    t.retain(|key, _| ks.iter().any(|x| x == key));
                    -1
                }
                "sort_values" => {
                    t.sort_values();
                    -1
                }
                "sort_values_by_mod3" => {
                    t.sort_values_by(|_, a, _, b| (id_item(a) % 3).cmp(&(id_item(b) % 3)));
                    -1
                }
                "sort_values_by_key" => {
                    t.sort_values_by(|k1, _, k2, _| k1.get().cmp(k2.get()));
                    -1
                }
                "clear" => {
                    t.clear();
                    -1
                }
                "extend" => {
                    t.extend([(k.to_string(), item_of(v)), (o["k2"].as_str().unwrap().to_string(), item_of(v))]);
                    -1
                }
                _ => panic!("op {op} on table"),
            }
        }
        "inline" => {
            let t = item.as_inline_table_mut().expect("inline");
            match op {
                "insert" => t.insert(k, value_of(v)).as_ref().map(id_value).unwrap_or(0),
                "insert_formatted" => t.insert_formatted(&Key::new(k), value_of(v)).as_ref().map(id_value).unwrap_or(0),
                "remove" => t.remove(k).as_ref().map(id_value).unwrap_or(0),
                "remove_entry" => t.remove_entry(k).map(|(_, i)| id_value(&i)).unwrap_or(0),
                "entry_or_insert" => id_value(t.entry(k).or_insert(value_of(v))),
                "get_or_insert" => id_value(t.get_or_insert(k, value_of(v))),
                "entry_insert" => match t.entry(k) {
                    toml_edit::InlineEntry::Occupied(mut e) => id_value(&e.insert(value_of(v))),
                    toml_edit::InlineEntry::Vacant(e) => {
                        e.insert(value_of(v));
                        0
                    }
                },
                "entry_remove" => match t.entry(k) {
                    toml_edit::InlineEntry::Occupied(e) => id_value(&e.remove()),
                    toml_edit::InlineEntry::Vacant(_) => 0,
                },
                "retain" => {
                    let ks = keyset(o, "ks");
                    t.retain(|key, _| ks.iter().any(|x| x == key));
                    -1
                }
                "sort_values" => {
                    t.sort_values();
                    -1
                }
                "sort_values_by_mod3" => {
                    t.sort_values_by(|_, a, _, b| (id_value(a) % 3).cmp(&(id_value(b) % 3)));
                    -1
                }
                "sort_values_by_key" => {
                    t.sort_values_by(|k1, _, k2, _| k1.get().cmp(k2.get()));
                    -1
                }
                "clear" => {
                    t.clear();
                    -1
                }
                "extend" => {
                    t.extend([(k.to_string(), value_of(v)), (o["k2"].as_str().unwrap().to_string(), value_of(v))]);
                    -1
                }
                _ => panic!("op {op} on inline"),
            }
        }
        _ => {
            // the TableLike view
            let t = item.as_table_like_mut().expect("table like");
            match op {
                "insert" => id_opt_item(t.insert(k, item_of(v)).as_ref()),
                "remove" => id_opt_item(t.remove(k).as_ref()),
                "entry_or_insert" => id_item(t.entry(k).or_insert(item_of(v))),
                "entry_insert" => match t.entry(k) {
                    toml_edit::Entry::Occupied(mut e) => id_item(&e.insert(item_of(v))),
                    toml_edit::Entry::Vacant(e) => {
                        e.insert(item_of(v));
                        0
                    }
                },
                "entry_remove" => match t.entry_format(&Key::new(k)) {
                    toml_edit::Entry::Occupied(e) => id_item(&e.remove()),
                    toml_edit::Entry::Vacant(_) => 0,
                },
                "sort_values" => {
                    t.sort_values();
                    -1
                }
                "clear" => {
                    t.clear();
                    -1
                }
                _ => panic!("op {op} on table-like"),
            }
        }
    }
}

// ------------------------------------------------------------------------------------------------
fn obs_map(m: &toml::map::Map<String, toml::Value>) -> J {
    let idv = |v: &toml::Value| v.as_integer().unwrap_or(99);
    let mut get = serde_json::Map::new();
    let mut has = serde_json::Map::new();
    for k in KEYS {
        get.insert(k.into(), json!(m.get(k).map(idv).unwrap_or(0)));
        has.insert(k.into(), json!(m.contains_key(k)));
    }
    let iter: Vec<J> = m.iter().map(|(k, v)| json!([k, idv(v)])).collect();
    let keys: Vec<&String> = m.keys().collect();
    let vals: Vec<i64> = m.values().map(idv).collect();
    let consistent = keys.len() == iter.len() && vals.len() == iter.len();
    let mut printed: Vec<String> = toml::to_string(m).ok().and_then(|s| s.parse::<toml::Table>().ok()).map(|t| t.keys().cloned().collect()).unwrap_or_else(|| vec!["<<unparsable>>".into()]);
    printed.sort();
    let owned: Vec<J> = m.clone().into_iter().map(|(k, v)| json!([k, idv(&v)])).collect();
    let iter_mut: Vec<J> = m.clone().iter_mut().map(|(k, v)| json!([k, idv(v)])).collect();
    // the iterators are double-ended: from the back they give the same entries in reverse; mixed ends meet
    let mut rev: Vec<J> = m.iter().rev().map(|(k, v)| json!([k, idv(v)])).collect();
    let krev: Vec<&String> = m.keys().rev().collect();
    let kfwd: Vec<&String> = m.keys().collect();
    if krev.iter().rev().cloned().collect::<Vec<_>>() != kfwd || m.values().rev().count() != m.len() {
        rev.push(json!(["<<keys/values from the back disagree>>", 0]));
    }
    let mut it = m.iter();
    if m.len() >= 2 {
        let first = it.next().map(|(k, _)| k.clone());
        let last = it.next_back().map(|(k, _)| k.clone());
        if first.as_ref() != kfwd.first().cloned() || last.as_ref() != kfwd.last().cloned() {
            rev.push(json!(["<<next / next_back disagree>>", 0]));
        }
    }
    json!({"len": if consistent { m.len() } else { usize::MAX }, "empty": m.is_empty(), "iter": iter, "owned": owned, "iter_mut": iter_mut, "rev": rev, "get": get, "has": has, "printed": printed})
}

fn apply_map(m: &mut toml::map::Map<String, toml::Value>, o: &J) -> i64 {
    use toml::map::Entry;
    let idv = |v: &toml::Value| v.as_integer().unwrap_or(99);
    let op = o["op"].as_str().unwrap();
    let k = o["k"].as_str().unwrap_or("");
    let v = toml::Value::Integer(o["v"].as_i64().unwrap_or(0));
    match op {
        "insert" => m.insert(k.to_string(), v).as_ref().map(idv).unwrap_or(0),
        "remove" => m.remove(k).as_ref().map(idv).unwrap_or(0),
        "entry_or_insert" => idv(m.entry(k).or_insert(v)),
        "entry_insert" => match m.entry(k) {
            Entry::Occupied(mut e) => idv(&e.insert(v)),
            Entry::Vacant(e) => {
                e.insert(v);
                0
            }
        },
        "entry_remove" => match m.entry(k) {
            Entry::Occupied(e) => idv(&e.remove()),
            Entry::Vacant(_) => 0,
        },
        "retain" => {
            let ks = keyset(o, "ks");
            m.retain(|key, _| ks.iter().any(|x| x == key));
            -1
        }
        "clear" => {
            m.clear();
            -1
        }
        "extend" => {
            m.extend([(k.to_string(), v.clone()), (o["k2"].as_str().unwrap().to_string(), v)]);
            -1
        }
        _ => panic!("op {op} on map"),
    }
}

// ------------------------------------------------------------------------------------------------
fn tbl(id: i64) -> Table {
    let mut t = Table::new();
    t.insert("id", Item::Value(Value::from(id)));
    t
}
fn id_tbl(t: &Table) -> i64 {
    t.get("id").and_then(|i| i.as_integer()).unwrap_or(99)
}

enum SeqC {
    Arr(Array),
    Aot(ArrayOfTables),
}

fn obs_seq(s: &SeqC) -> J {
    match s {
        SeqC::Arr(a) => {
            let iter: Vec<i64> = a.iter().map(id_value).collect();
            let by_get: Vec<i64> = (0..a.len()).map(|i| a.get(i).map(id_value).unwrap_or(-7)).collect();
            let printed = a.to_string().parse::<Value>().ok().and_then(|v| v.as_array().map(|x| x.len())).unwrap_or(usize::MAX);
            json!({"len": if by_get == iter && printed == iter.len() && a.get(a.len()).is_none() { a.len() } else { usize::MAX }, "empty": a.is_empty(), "iter": iter})
        }
        SeqC::Aot(a) => {
            let iter: Vec<i64> = a.iter().map(id_tbl).collect();
            let by_get: Vec<i64> = (0..a.len()).map(|i| a.get(i).map(id_tbl).unwrap_or(-7)).collect();
            json!({"len": if by_get == iter && a.get(a.len()).is_none() { a.len() } else { usize::MAX }, "empty": a.is_empty(), "iter": iter})
        }
    }
}

fn apply_seq(s: &mut SeqC, o: &J) -> i64 {
    let op = o["op"].as_str().unwrap();
    let v = o["v"].as_i64().unwrap_or(0);
    let i = o["i"].as_u64().unwrap_or(0) as usize;
    match s {
        SeqC::Arr(a) => match op {
            "push" => {
                a.push(v);
                -1
            }
            "insert_at" => {
                a.insert(i, v);
                -1
            }
            "replace" => id_value(&a.replace(i, v)),
            "remove_at" => id_value(&a.remove(i)),
            "retain" => {
                let vs = intset(o, "vs");
                a.retain(|x| vs.contains(&id_value(x)));
                -1
            }
            "clear" => {
                a.clear();
                -1
            }
            "extend" => {
                a.extend([v, o["v2"].as_i64().unwrap()]);
                -1
            }
            "sort_by_key_mod3" => {
                a.sort_by_key(|x| id_value(x) % 3);
                -1
            }
            "sort_by_mod3" => {
                a.sort_by(|x, y| (id_value(x) % 3).cmp(&(id_value(y) % 3)));
                -1
            }
            _ => panic!("op {op} on array"),
        },
        SeqC::Aot(a) => match op {
            "push" => {
                a.push(tbl(v));
                -1
            }
            "remove_at" => {
                let old = a.get(i).map(id_tbl).unwrap_or(0);
                a.remove(i);
                old
            }
            "retain" => {
                let vs = intset(o, "vs");
                a.retain(|x| vs.contains(&id_tbl(x)));
                -1
            }
            "clear" => {
                a.clear();
                -1
            }
            "extend" => {
                a.extend([tbl(v), tbl(o["v2"].as_i64().unwrap())]);
                -1
            }
            _ => panic!("op {op} on aot"),
        },
    }
}

fn map_kind_here() -> &'static str {
    if cfg!(feature = "preserve_order") {
        "map_insertion"
    } else {
        "map_sorted"
    }
}

/// --in histories.ndjson : {kind, ops:[...]} -> hist events
pub fn hist_events(args: &Args) {
    let recs = read_ndjson(args.req("in"));
    let mut out = out_writer(args);
    for (n, r) in recs.iter().enumerate() {
        let kind = r["kind"].as_str().unwrap().to_string();
        if kind.starts_with("map_") && kind != map_kind_here() {
            continue; // this build has the other map configuration
        }
        let ops = r["ops"].as_array().unwrap();
        let mut steps = Vec::new();
        enum C {
            Edit(Item),
            Map(toml::map::Map<String, toml::Value>),
            Seq(SeqC),
        }
        let mut c = match kind.as_str() {
            "table" | "tablelike_table" => C::Edit(Item::Table(Table::new())),
            "inline" | "tablelike_inline" => C::Edit(Item::Value(Value::InlineTable(InlineTable::new()))),
            "array" => C::Seq(SeqC::Arr(Array::new())),
            "aot" => C::Seq(SeqC::Aot(ArrayOfTables::new())),
            _ => C::Map(toml::map::Map::new()),
        };
        for o in ops {
            let r = catch_unwind(AssertUnwindSafe(|| match &mut c {
                C::Edit(item) => {
                    let ret = apply_edit(&kind, item, o);
                    (ret, obs_edit(&kind, item))
                }
                C::Map(m) => {
                    let ret = apply_map(m, o);
                    (ret, obs_map(m))
                }
                C::Seq(s) => {
                    let ret = apply_seq(s, o);
                    (ret, obs_seq(s))
                }
            }));
            let mut step = o.clone();
            match r {
                Ok((ret, obs)) => {
                    step["ret"] = json!(ret);
                    step["obs"] = obs;
                    step["panic"] = json!(false);
                    steps.push(step);
                }
                Err(_) => {
                    step["ret"] = json!(-9);
                    step["obs"] = json!({"len": 0, "empty": true, "iter": [], "owned": [], "iter_mut": [], "rev": [], "get": {}, "has": {}, "printed": []});
                    step["panic"] = json!(true);
                    steps.push(step);
                    break;
                }
            }
        }
        writeln!(out, "{}", json!({"ev": "hist", "id": format!("h{n}"), "kind": kind, "ops": steps})).unwrap();
    }
}

/// --kind K --n N --len L --seed S : seeded random histories (direction V)
pub fn gen_hist(args: &Args) {
    use rand::rngs::StdRng;
    use rand::{Rng, SeedableRng};
    let mut rng = StdRng::seed_from_u64(args.num("seed", 1));
    let n = args.num("n", 100);
    let len = args.num("len", 30);
    let kinds: Vec<String> = args.req("kinds").split(',').map(|s| s.to_string()).collect();
    let mut out = out_writer(args);
    for _ in 0..n {
        for kind in &kinds {
            let seq = kind == "array" || kind == "aot";
            let mut ops = Vec::new();
            let mut cur_len: i64 = 0; // conservative lower bound on the sequence length
            let full = |o: J| {
                let mut f = json!({"op": "", "k": "", "v": 0, "k2": "", "ks": [], "i": 0, "vs": [], "v2": 0});
                for (kk, vv) in o.as_object().unwrap() {
                    f[kk] = vv.clone();
                }
                f
            };
            // bulk prefix: enough elements for the sort implementations to leave their small-input paths,
            // with many ties under the comparator (sort stability)
            let mut bulk = false;
            if (kind == "array" || kind == "inline" || kind == "table") && rng.gen_range(0..4) == 0 {
                bulk = true;
                let m = rng.gen_range(21..40);
                for j in 0..m {
                    let v = [1, 2, 7, 8, 9, 10, 11, 12, 13][rng.gen_range(0..9)];
                    if seq {
                        ops.push(full(json!({"op": "push", "v": v})));
                        cur_len += 1;
                    } else {
                        ops.push(full(json!({"op": "insert", "k": format!("k{j:02}"), "v": v})));
                    }
                }
                if seq {
                    ops.push(full(json!({"op": if rng.gen() { "sort_by_key_mod3" } else { "sort_by_mod3" }})));
                } else {
                    ops.push(full(json!({"op": "sort_values_by_mod3"})));
                }
            }
            for _ in 0..len {
                let k = KEYS[rng.gen_range(0..3)];
                let o = if seq {
                    match rng.gen_range(0..8) {
                        0..=2 => {
                            cur_len += 1;
                            json!({"op": "push", "v": rng.gen_range(1..3)})
                        }
                        3 if kind == "array" && cur_len >= 0 => {
                            let i = rng.gen_range(0..=cur_len);
                            cur_len += 1;
                            json!({"op": "insert_at", "i": i, "v": 2})
                        }
                        4 if kind == "array" && cur_len > 0 => json!({"op": "replace", "i": rng.gen_range(0..cur_len), "v": 1}),
                        5 if cur_len > 0 => {
                            let i = rng.gen_range(0..cur_len);
                            cur_len -= 1;
                            json!({"op": "remove_at", "i": i})
                        }
                        6 => {
                            cur_len += 2;
                            json!({"op": "extend", "v": 1, "v2": 2})
                        }
                        _ => {
                            cur_len += 1;
                            json!({"op": "push", "v": 1})
                        }
                    }
                } else {
                    let v = if kind.contains("table") && !kind.contains("inline") { [1, 3, 4][rng.gen_range(0..3)] } else { rng.gen_range(1..3) };
                    let editable = !kind.starts_with("map_");
                    let like = kind.starts_with("tablelike");
                    match rng.gen_range(0..12) {
                        0..=2 => json!({"op": "insert", "k": k, "v": v}),
                        3 => json!({"op": "remove", "k": k}),
                        4 => json!({"op": "entry_or_insert", "k": k, "v": 1}),
                        5 => json!({"op": "entry_insert", "k": k, "v": 2}),
                        6 => json!({"op": "entry_remove", "k": k}),
                        7 if editable => json!({"op": "index_mut", "k": k}),
                        8 if editable => json!({"op": "index_assign", "k": k, "v": 1}),
                        9 if editable && !bulk => json!({"op": "sort_values"}),
                        10 if !like => json!({"op": "retain", "ks": [KEYS[rng.gen_range(0..3)], KEYS[rng.gen_range(0..3)]]}),
                        11 if !like => json!({"op": "extend", "k": k, "k2": KEYS[rng.gen_range(0..3)], "v": 2}),
                        _ => json!({"op": "insert", "k": k, "v": v}),
                    }
                };
                let mut full = json!({"op": "", "k": "", "v": 0, "k2": "", "ks": [], "i": 0, "vs": [], "v2": 0});
                for (kk, vv) in o.as_object().unwrap() {
                    full[kk] = vv.clone();
                }
                ops.push(full);
            }
            writeln!(out, "{}", json!({"kind": kind, "ops": ops})).unwrap();
        }
    }
}
