//! Record `parse` events: one per text, with the verdict and projected tree of every front end.
use crate::gen::{out_writer, read_ndjson};
use crate::proj;
use crate::Args;
use serde_json::{json, Value as J};
use std::io::Write;
use std::panic::{catch_unwind, AssertUnwindSafe};
use std::str::FromStr;

fn outcome<T>(r: std::thread::Result<Result<T, String>>, f: impl FnOnce(T) -> J) -> (String, J) {
    match r {
        Ok(Ok(v)) => ("ok".into(), f(v)),
        Ok(Err(_)) => ("err".into(), proj::dummy()),
        Err(_) => ("panic".into(), proj::dummy()),
    }
}

pub const ORDERED_TOML: bool = cfg!(feature = "preserve_order");

/// All front ends on one text.  Returns (fe, res, ordered, tree).
pub fn front_ends(text: &str, bytes: Option<&[u8]>) -> Vec<(String, String, bool, J)> {
    let mut v = Vec::new();
    if bytes.is_none() {
        let r = catch_unwind(AssertUnwindSafe(|| toml_edit::DocumentMut::from_str(text).map_err(|e| e.to_string())));
        let (res, tree) = outcome(r, |d| proj::edit_table(d.as_table(), false));
        v.push(("edit".to_string(), res, true, tree));
        let r = catch_unwind(AssertUnwindSafe(|| toml_edit::ImDocument::parse(text).map_err(|e| e.to_string())));
        let (res, tree) = outcome(r, |d| proj::edit_table(d.as_table(), false));
        v.push(("im".to_string(), res, true, tree));
        let r = catch_unwind(AssertUnwindSafe(|| toml::from_str::<toml::Table>(text).map_err(|e| e.to_string())));
        let (res, tree) = outcome(r, |d| proj::toml_table(&d));
        v.push(("toml".to_string(), res, ORDERED_TOML, tree));
        let r = catch_unwind(AssertUnwindSafe(|| {
            toml_edit::de::from_str::<toml::Table>(text).map_err(|e| e.to_string())
        }));
        let (res, tree) = outcome(r, |d| proj::toml_table(&d));
        v.push(("edit_de".to_string(), res, ORDERED_TOML, tree));
    }
    let b: &[u8] = bytes.unwrap_or(text.as_bytes());
    let r = catch_unwind(AssertUnwindSafe(|| toml_edit::de::from_slice::<toml::Table>(b).map_err(|e| e.to_string())));
    let (res, tree) = outcome(r, |d| proj::toml_table(&d));
    v.push(("slice".to_string(), res, ORDERED_TOML, tree));
    v
}

/// --in texts.ndjson --out events.ndjson
pub fn parse_events(args: &Args) {
    let recs = read_ndjson(args.req("in"));
    let mut out = out_writer(args);
    for r in &recs {
        let id = r["id"].clone();
        let lab = r.get("lab").cloned().unwrap_or(J::from(""));
        let (text, bytes): (String, Option<Vec<u8>>) = if let Some(b) = r.get("bytes") {
            let b: Vec<u8> = b.as_array().unwrap().iter().map(|x| x.as_u64().unwrap() as u8).collect();
            (String::new(), Some(b))
        } else {
            (proj::from_cps(&r["text"]), None)
        };
        let fes = front_ends(&text, bytes.as_deref());
        // merge identical results
        let mut groups: Vec<(Vec<String>, String, bool, J)> = Vec::new();
        for (fe, res, ord, tree) in fes {
            if let Some(g) = groups.iter_mut().find(|g| g.1 == res && g.2 == ord && g.3 == tree) {
                g.0.push(fe);
            } else {
                groups.push((vec![fe], res, ord, tree));
            }
        }
        let rs: Vec<J> = groups
            .into_iter()
            .map(|(fe, res, ord, tree)| json!({"fe": fe, "res": res, "ordered": ord, "tree": tree}))
            .collect();
        let ev = match &bytes {
            Some(b) => json!({"ev": "parse_bytes", "id": id, "lab": lab, "bytes": b, "r": rs}),
            None => json!({"ev": "parse", "id": id, "lab": lab, "text": r["text"], "r": rs}),
        };
        writeln!(out, "{ev}").unwrap();
    }
}

// ---------------------------------------------------------------------------------------------
/// `flags` events: what the parser's state machine leaves in every table (is_implicit, is_dotted, position), for
/// the comparison with the implementation-shaped model ParseStateImpl.tla (model drift, not a property).
fn table_flags(t: &toml_edit::Table, path: &mut Vec<J>, out: &mut Vec<J>) {
    out.push(json!({"path": path.clone(), "implicit": t.is_implicit(), "dotted": t.is_dotted(), "pos": t.position().unwrap_or(0)}));
    for (k, item) in t.iter() {
        path.push(proj::cps(k));
        match item {
            toml_edit::Item::Table(sub) => table_flags(sub, path, out),
            toml_edit::Item::ArrayOfTables(a) => {
                for (i, e) in a.iter().enumerate() {
                    path.push(json!([-1, i]));
                    table_flags(e, path, out);
                    path.pop();
                }
            }
            _ => {}
        }
        path.pop();
    }
}

/// --in texts.ndjson
pub fn flags_events(args: &Args) {
    let recs = read_ndjson(args.req("in"));
    let mut out = out_writer(args);
    for r in &recs {
        if r.get("text").is_none() {
            continue;
        }
        let text = proj::from_cps(&r["text"]);
        let (res, flags) = match catch_unwind(AssertUnwindSafe(|| toml_edit::DocumentMut::from_str(&text))) {
            Ok(Ok(d)) => {
                let mut fl = Vec::new();
                table_flags(d.as_table(), &mut Vec::new(), &mut fl);
                ("ok", fl)
            }
            Ok(Err(_)) => ("err", vec![]),
            Err(_) => ("panic", vec![]),
        };
        writeln!(out, "{}", json!({"ev": "flags", "id": r["id"], "text": r["text"], "res": res, "flags": flags})).unwrap();
    }
}
