//! `visit` events (C20): callback logs of counting Visit / VisitMut walkers (all other methods default) and the
//! documents rewritten by a VisitMut that replaces every scalar of one type.
use crate::gen::{out_writer, read_ndjson};
use crate::proj::{cps, from_cps};
use crate::Args;
use serde_json::{json, Value as J};
use std::io::Write;
use std::panic::{catch_unwind, AssertUnwindSafe};
use std::str::FromStr;
use toml_edit::visit::{self, Visit};
use toml_edit::visit_mut::{self, VisitMut};
use toml_edit::{Array, ArrayOfTables, DocumentMut, Formatted, InlineTable, Item, KeyMut, Table};

#[derive(Default)]
struct Log {
    path: Vec<String>,
    events: Vec<J>,
}
impl Log {
    fn ev(&mut self, kind: &str) {
        let p: Vec<J> = self.path.iter().map(|k| cps(k)).collect();
        self.events.push(json!({"kind": kind, "path": p}));
    }
}

impl<'doc> Visit<'doc> for Log {
    fn visit_table(&mut self, node: &'doc Table) {
        self.ev("table");
        visit::visit_table(self, node);
    }
    fn visit_inline_table(&mut self, node: &'doc InlineTable) {
        self.ev("inline_table");
        visit::visit_inline_table(self, node);
    }
    fn visit_table_like_kv(&mut self, key: &'doc str, node: &'doc Item) {
        self.path.push(key.to_string());
        self.ev("kv");
        visit::visit_table_like_kv(self, key, node);
        self.path.pop();
    }
    fn visit_array(&mut self, node: &'doc Array) {
        self.ev("array");
        visit::visit_array(self, node);
    }
    fn visit_value(&mut self, node: &'doc toml_edit::Value) {
        self.ev("value");
        visit::visit_value(self, node);
    }
    fn visit_array_of_tables(&mut self, node: &'doc ArrayOfTables) {
        self.ev("aot");
        visit::visit_array_of_tables(self, node);
    }
    fn visit_boolean(&mut self, _n: &'doc Formatted<bool>) {
        self.ev("boolean");
    }
    fn visit_datetime(&mut self, _n: &'doc Formatted<toml_edit::Datetime>) {
        self.ev("datetime");
    }
    fn visit_float(&mut self, _n: &'doc Formatted<f64>) {
        self.ev("float");
    }
    fn visit_integer(&mut self, _n: &'doc Formatted<i64>) {
        self.ev("integer");
    }
    fn visit_string(&mut self, _n: &'doc Formatted<String>) {
        self.ev("string");
    }
}

#[derive(Default)]
struct LogMut {
    log: Log,
    rewrite: Option<&'static str>,
}
impl VisitMut for LogMut {
    fn visit_table_mut(&mut self, node: &mut Table) {
        self.log.ev("table");
        visit_mut::visit_table_mut(self, node);
    }
    fn visit_inline_table_mut(&mut self, node: &mut InlineTable) {
        self.log.ev("inline_table");
        visit_mut::visit_inline_table_mut(self, node);
    }
    fn visit_table_like_kv_mut(&mut self, key: KeyMut<'_>, node: &mut Item) {
        self.log.path.push(key.get().to_string());
        self.log.ev("kv");
        visit_mut::visit_table_like_kv_mut(self, key, node);
        self.log.path.pop();
    }
    fn visit_array_mut(&mut self, node: &mut Array) {
        self.log.ev("array");
        visit_mut::visit_array_mut(self, node);
    }
    fn visit_value_mut(&mut self, node: &mut toml_edit::Value) {
        self.log.ev("value");
        visit_mut::visit_value_mut(self, node);
    }
    fn visit_array_of_tables_mut(&mut self, node: &mut ArrayOfTables) {
        self.log.ev("aot");
        visit_mut::visit_array_of_tables_mut(self, node);
    }
    fn visit_boolean_mut(&mut self, _n: &mut Formatted<bool>) {
        self.log.ev("boolean");
    }
    fn visit_datetime_mut(&mut self, _n: &mut Formatted<toml_edit::Datetime>) {
        self.log.ev("datetime");
    }
    fn visit_float_mut(&mut self, n: &mut Formatted<f64>) {
        self.log.ev("float");
        if self.rewrite == Some("float") {
            *n = Formatted::new(0.5);
        }
    }
    fn visit_integer_mut(&mut self, n: &mut Formatted<i64>) {
        self.log.ev("integer");
        if self.rewrite == Some("integer") {
            *n = Formatted::new(42);
        }
    }
    fn visit_string_mut(&mut self, n: &mut Formatted<String>) {
        self.log.ev("string");
        if self.rewrite == Some("string") {
            *n = Formatted::new("X".to_string());
        }
    }
}

/// --in texts.ndjson
pub fn visit_events(args: &Args) {
    let recs = read_ndjson(args.req("in"));
    let mut out = out_writer(args);
    for r in &recs {
        if r.get("text").is_none() {
            continue;
        }
        let text = from_cps(&r["text"]);
        let Ok(doc) = DocumentMut::from_str(&text) else { continue };
        let res = catch_unwind(AssertUnwindSafe(|| {
            let mut l = Log::default();
            l.visit_document(&doc);
            let mut lm = LogMut::default();
            let mut d2 = doc.clone();
            lm.visit_document_mut(&mut d2);
            let unchanged = d2.to_string() == doc.to_string();
            let mut rewritten = serde_json::Map::new();
            for kind in ["integer", "string", "float"] {
                let mut w = LogMut { log: Log::default(), rewrite: Some(kind) };
                let mut d3 = doc.clone();
                w.visit_document_mut(&mut d3);
                rewritten.insert(kind.to_string(), cps(&d3.to_string()));
            }
            // the same walks on a copy in which mutable indexing has left a placeholder in every standard table:
            // placeholders are entries for nobody, the logs must not change
            struct Touch;
            impl VisitMut for Touch {
                fn visit_table_mut(&mut self, node: &mut Table) {
                    let _ = &mut node["\u{7f}ghost"];
                    toml_edit::visit_mut::visit_table_mut(self, node);
                }
            }
            let mut d4 = doc.clone();
            Touch.visit_document_mut(&mut d4);
            let mut lt = Log::default();
            lt.visit_document(&d4);
            let mut lmt = LogMut::default();
            lmt.visit_document_mut(&mut d4);
            (l.events, lm.log.events, unchanged, rewritten, lt.events, lmt.log.events)
        }));
        match res {
            Ok((log, logmut, unchanged, rewritten, log_t, logmut_t)) => {
                writeln!(out, "{}", json!({"ev": "visit", "id": r["id"], "text": r["text"], "res": "ok", "log": log, "logmut": logmut,
                                           "log_touched": log_t, "logmut_touched": logmut_t,
                                           "unchanged": unchanged, "rewritten": rewritten})).unwrap();
            }
            Err(_) => {
                writeln!(out, "{}", json!({"ev": "visit", "id": r["id"], "text": r["text"], "res": "panic", "log": [], "logmut": [], "log_touched": [], "logmut_touched": [],
                                           "unchanged": false, "rewritten": {"integer": [], "string": [], "float": []}})).unwrap();
            }
        }
    }
}
