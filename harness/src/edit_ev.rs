//! `edit` events (C08): histories of structural edits chosen by TLC (MCEdit) applied to a start document through
//! the public API; the document is printed after every step.
use crate::gen::{out_writer, read_ndjson};
use crate::proj::{cps, from_cps};
use crate::Args;
use serde_json::{json, Value as J};
use std::io::Write;
use std::panic::{catch_unwind, AssertUnwindSafe};
use std::str::FromStr;
use toml_edit::{DocumentMut, Item, Table, Value};

fn is_idx(st: &J) -> Option<usize> {
    let a = st.as_array()?;
    if a.len() == 2 && a[0].as_i64() == Some(-1) {
        Some(a[1].as_u64()? as usize)
    } else {
        None
    }
}


enum Res {
    Ok,
    Skip,
}

/// apply `f` to the table-like at `path` (path may go through array-of-tables / array elements)
fn with_table_like(item: &mut Item, path: &[J], f: &mut dyn FnMut(&mut dyn toml_edit::TableLike, bool) -> Res) -> Res {
    with_item(item, path, &mut |item| {
        let is_std = item.is_table();
        match item.as_table_like_mut() {
            Some(t) => f(t, is_std),
            None => Res::Skip,
        }
    })
}

/// apply `f` to the item at `path`
fn with_item(item: &mut Item, path: &[J], f: &mut dyn FnMut(&mut Item) -> Res) -> Res {
    if path.is_empty() {
        return f(item);
    }
    match is_idx(&path[0]) {
        Some(i) => match item {
            Item::ArrayOfTables(a) => match a.get_mut(i) {
                Some(t) => {
                    // continue inside the element
                    let mut tmp = Item::Table(std::mem::take(t));
                    let r = with_item(&mut tmp, &path[1..], f);
                    if let Item::Table(tt) = tmp {
                        *t = tt;
                    }
                    r
                }
                None => Res::Skip,
            },
            Item::Value(Value::Array(a)) => match a.get_mut(i) {
                Some(v) => {
                    let mut tmp = Item::Value(std::mem::replace(v, Value::from(0)));
                    let r = with_item(&mut tmp, &path[1..], f);
                    if let Item::Value(vv) = tmp {
                        *v = vv;
                    }
                    r
                }
                None => Res::Skip,
            },
            _ => Res::Skip,
        },
        None => match item.get_mut(from_cps(&path[0]).as_str()) {
            Some(next) => with_item(next, &path[1..], f),
            None => Res::Skip,
        },
    }
}

fn leaf_int(v: &J) -> i64 {
    v["d"].as_array().map(|d| d.iter().fold(0i64, |a, x| a * 10 + x.as_i64().unwrap())).unwrap_or(0)
}

fn apply(doc: &mut DocumentMut, o: &J) -> Res {
    let op = o["op"].as_str().unwrap().to_string();
    let path: Vec<J> = o["path"].as_array().unwrap().clone();
    let key = from_cps(&o["key"]);
    let i = o["i"].as_u64().unwrap_or(0) as usize;
    let v = o["v"].clone();
    // the retain family needs the concrete container types
    if op == "retain_not" {
        return with_item(doc.as_item_mut(), &path, &mut |it| match it {
            Item::Table(t) => {
                t.retain(|k, _| k != key);
                Res::Ok
            }
            Item::Value(Value::InlineTable(t)) => {
                t.retain(|k, _| k != key);
                Res::Ok
            }
            _ => Res::Skip,
        });
    }
    if op == "array_retain_not" || op == "aot_retain_not" {
        return with_table_like(doc.as_item_mut(), &path, &mut |t, _| {
            let Some(it) = t.get_mut(&key) else { return Res::Skip };
            let mut n = 0usize;
            match it {
                Item::Value(Value::Array(a)) if op == "array_retain_not" => {
                    a.retain(|_| {
                        n += 1;
                        n - 1 != i
                    });
                    Res::Ok
                }
                Item::ArrayOfTables(a) if op == "aot_retain_not" => {
                    a.retain(|_| {
                        n += 1;
                        n - 1 != i
                    });
                    Res::Ok
                }
                _ => Res::Skip,
            }
        });
    }
    with_table_like(doc.as_item_mut(), &path, &mut |t, is_std| match op.as_str() {
        "insert" => {
            if v["k"] == "t" {
                // a new table { id = n }: a standard table under a standard table, an inline table elsewhere
                let n = leaf_int(&v["v"][0]["val"]);
                if is_std {
                    let mut nt = Table::new();
                    nt.insert("id", toml_edit::value(n));
                    t.insert(&key, Item::Table(nt));
                } else {
                    let mut nt = toml_edit::InlineTable::new();
                    nt.insert("id", n.into());
                    t.insert(&key, Item::Value(Value::InlineTable(nt)));
                }
            } else {
                t.insert(&key, toml_edit::value(leaf_int(&v)));
            }
            Res::Ok
        }
        "remove" => {
            t.remove(&key);
            Res::Ok
        }
        "sort_values" => {
            t.sort_values();
            Res::Ok
        }
        "fmt" => {
            t.fmt();
            Res::Ok
        }
        "clear" => {
            t.clear();
            Res::Ok
        }
        "array_fmt" => {
            let Some(a) = t.get_mut(&key).and_then(|x| x.as_array_mut()) else { return Res::Skip };
            a.fmt();
            Res::Ok
        }
        "to_inline" => {
            // a standard (or dotted-key) table becomes an inline table
            let Some(it) = t.get_mut(&key) else { return Res::Skip };
            if !it.is_table() {
                return Res::Skip;
            }
            it.make_value();
            Res::Ok
        }
        "to_table" => {
            // an inline table becomes a standard table (only possible directly inside a standard table)
            let Some(it) = t.get_mut(&key) else { return Res::Skip };
            if !is_std || !it.is_inline_table() {
                return Res::Skip;
            }
            let taken = std::mem::take(it);
            *it = match taken.into_table() {
                Ok(tb) => Item::Table(tb),
                Err(other) => other,
            };
            Res::Ok
        }
        "array_push" | "array_insert" | "array_replace" | "array_remove" => {
            let Some(a) = t.get_mut(&key).and_then(|x| x.as_array_mut()) else { return Res::Skip };
            match op.as_str() {
                "array_push" => a.push(leaf_int(&v)),
                "array_insert" => a.insert(i, leaf_int(&v)),
                "array_replace" => {
                    a.replace(i, leaf_int(&v));
                }
                _ => {
                    a.remove(i);
                }
            }
            Res::Ok
        }
        "aot_push" | "aot_remove" => {
            let Some(a) = t.get_mut(&key).and_then(|x| x.as_array_of_tables_mut()) else { return Res::Skip };
            if op == "aot_push" {
                let mut nt = Table::new();
                nt.insert("id", toml_edit::value(leaf_int(&v["v"][0]["val"])));
                a.push(nt);
            } else {
                a.remove(i);
            }
            Res::Ok
        }
        _ => Res::Skip,
    })
}

/// --in histories.ndjson --docs docs.ndjson
pub fn edit_events(args: &Args) {
    let recs = read_ndjson(args.req("in"));
    let docs = match args.get("docs") {
        Some(p) => read_ndjson(p),
        None => Vec::new(),
    };
    let mut out = out_writer(args);
    for (n, r) in recs.iter().enumerate() {
        let dn = r["doc"].as_u64().unwrap() as usize;
        // a history either names one of the start documents of EditDocs or carries its own start text
        let start = if r["start"].is_array() { from_cps(&r["start"]) } else { from_cps(&docs[dn - 1]["text"]) };
        let mut doc = DocumentMut::from_str(&start).expect("start document parses");
        let mut steps = Vec::new();
        for o in r["ops"].as_array().unwrap() {
            let res = catch_unwind(AssertUnwindSafe(|| {
                let r = apply(&mut doc, o);
                (matches!(r, Res::Ok), doc.to_string())
            }));
            let mut st = o.clone();
            match res {
                Ok((true, text)) => {
                    st["res"] = json!("ok");
                    st["text"] = cps(&text);
                    steps.push(st);
                }
                Ok((false, _)) => {
                    st["res"] = json!("skip");
                    st["text"] = json!([]);
                    steps.push(st);
                    break;
                }
                Err(_) => {
                    st["res"] = json!("panic");
                    st["text"] = json!([]);
                    steps.push(st);
                    break;
                }
            }
        }
        writeln!(out, "{}", json!({"ev": "edit", "id": match r["id"].as_str() { Some(x) => format!("{x}#{n}"), None => format!("edit{n}") }, "doc": dn, "start": cps(&start), "steps": steps})).unwrap();
    }
}


// ---- seeded random histories on arbitrary start documents (direction V) ----

/// every operation the model knows that the API offers at the table-likes of `item` (with their paths)
fn candidate_ops(item: &Item, path: &mut Vec<J>, out: &mut Vec<J>) {
    let zz = cps("zz");
    let leaf = json!({"k": "i", "neg": false, "d": [9]});
    let newt = json!({"k": "t", "v": [{"key": cps("id"), "val": leaf.clone()}]});
    let op = |name: &str, path: &Vec<J>, key: J, v: &J, i: usize| json!({"op": name, "path": path, "key": key, "v": v, "i": i});
    if let Some(t) = item.as_table_like() {
        out.push(op("insert", path, zz.clone(), &leaf, 0));
        out.push(op("insert", path, zz.clone(), &newt, 0));
        out.push(op("sort_values", path, json!([]), &leaf, 0));
        out.push(op("fmt", path, json!([]), &leaf, 0));
        out.push(op("clear", path, json!([]), &leaf, 0));
        let is_std = item.is_table();
        for (k, v) in t.iter() {
            let kc = cps(k);
            if v.as_array_of_tables().is_some_and(|a| a.is_empty()) {
                continue;
            }
            out.push(op("insert", path, kc.clone(), &leaf, 0));
            out.push(op("remove", path, kc.clone(), &leaf, 0));
            out.push(op("retain_not", path, kc.clone(), &leaf, 0));
            if v.is_table() {
                out.push(op("to_inline", path, kc.clone(), &leaf, 0));
            }
            if v.is_inline_table() && is_std {
                out.push(op("to_table", path, kc.clone(), &leaf, 0));
            }
            if let Some(a) = v.as_array() {
                out.push(op("array_fmt", path, kc.clone(), &leaf, 0));
                out.push(op("array_push", path, kc.clone(), &leaf, 0));
                for i in 0..=a.len().min(2) {
                    out.push(op("array_insert", path, kc.clone(), &leaf, i));
                }
                for i in 0..a.len().min(3) {
                    out.push(op("array_replace", path, kc.clone(), &leaf, i));
                    out.push(op("array_remove", path, kc.clone(), &leaf, i));
                    out.push(op("array_retain_not", path, kc.clone(), &leaf, i));
                }
            }
            if let Some(a) = v.as_array_of_tables() {
                // an empty array of tables cannot be spelled: it exists in memory only (no operations on it, and the
                // last element is not removed, so that the text always shows the whole state)
                if a.is_empty() {
                    continue;
                }
                out.push(op("aot_push", path, kc.clone(), &newt, 0));
                if a.len() >= 2 {
                    for i in 0..a.len().min(3) {
                        out.push(op("aot_remove", path, kc.clone(), &leaf, i));
                        out.push(op("aot_retain_not", path, kc.clone(), &leaf, i));
                    }
                }
            }
            // below
            path.push(kc);
            match v {
                Item::ArrayOfTables(a) => {
                    for (i, t) in a.iter().enumerate() {
                        path.push(json!([-1, i]));
                        candidate_ops(&Item::Table(t.clone()), path, out);
                        path.pop();
                    }
                }
                Item::Value(Value::Array(a)) => {
                    for (i, e) in a.iter().enumerate() {
                        if e.is_inline_table() {
                            path.push(json!([-1, i]));
                            candidate_ops(&Item::Value(e.clone()), path, out);
                            path.pop();
                        }
                    }
                }
                _ => candidate_ops(v, path, out),
            }
            path.pop();
        }
    }
}

/// --corpus texts.ndjson --n N --len L --seed S : N random histories of <= L operations on every text that the
/// parser accepts and prints back unchanged (so that nothing but the edits can alter the text)
pub fn gen_edit_random(args: &Args) {
    use rand::rngs::StdRng;
    use rand::{Rng, SeedableRng};
    let recs = read_ndjson(args.req("corpus"));
    let n: usize = args.get("n").map(|x| x.parse().unwrap()).unwrap_or(3);
    let len: usize = args.get("len").map(|x| x.parse().unwrap()).unwrap_or(3);
    let seed: u64 = args.get("seed").map(|x| x.parse().unwrap()).unwrap_or(1);
    let mut rng = StdRng::seed_from_u64(seed);
    let mut out = out_writer(args);
    for r in recs.iter() {
        if !r["text"].is_array() {
            continue;
        }
        let text = from_cps(&r["text"]);
        let Ok(doc0) = DocumentMut::from_str(&text) else { continue };
        if doc0.to_string() != text {
            continue;
        }
        for _ in 0..n {
            let mut doc = doc0.clone();
            let mut ops = Vec::new();
            for _ in 0..len {
                let mut cands = Vec::new();
                candidate_ops(doc.as_item(), &mut Vec::new(), &mut cands);
                if cands.is_empty() {
                    break;
                }
                let o = cands[rng.gen_range(0..cands.len())].clone();
                let ok = catch_unwind(AssertUnwindSafe(|| matches!(apply(&mut doc, &o), Res::Ok))).unwrap_or(false);
                ops.push(o);
                if !ok {
                    break;
                }
            }
            writeln!(out, "{}", json!({"doc": 0, "id": r["id"], "start": r["text"], "ops": ops})).unwrap();
        }
    }
}
