//! `api` events (C04): every entry point on every input, and everything a caller can do with the result.
//! Panics are caught and recorded; each call is timed.  A stack overflow or abort kills the process: the
//! current input id is kept in a progress file so that the driver can attribute the crash and resume.
use crate::gen::{out_writer, read_ndjson};
use crate::proj::from_cps;
use crate::Args;
use serde_json::{json, Value as J};
use std::io::Write;
use std::panic::{catch_unwind, AssertUnwindSafe};
use std::str::FromStr;
use std::time::Instant;

#[derive(serde::Deserialize, serde::Serialize, Debug, Clone)]
#[allow(dead_code)]
struct Derived {
    k: Option<toml::Value>,
    a: Option<Vec<i64>>,
    s: Option<String>,
    t: Option<std::collections::BTreeMap<String, toml::Value>>,
    d: Option<toml_datetime::Datetime>,
}

struct Rec {
    calls: u64,
    bad: Vec<J>,
    budget_ms: u128,
}

impl Rec {
    fn call<T>(&mut self, entry: &str, f: impl FnOnce() -> T) -> Option<T> {
        self.calls += 1;
        let t0 = Instant::now();
        let r = catch_unwind(AssertUnwindSafe(f));
        let ms = t0.elapsed().as_millis();
        if ms > self.budget_ms {
            self.bad.push(json!({"entry": entry, "what": "slow", "ms": ms as u64}));
        }
        match r {
            Ok(v) => Some(v),
            Err(_) => {
                self.bad.push(json!({"entry": entry, "what": "panic", "ms": ms as u64}));
                None
            }
        }
    }
}

fn use_error<E: std::fmt::Display + std::fmt::Debug>(rec: &mut Rec, entry: &str, e: &E) {
    rec.call(&format!("{entry}/err.to_string"), || e.to_string());
    rec.call(&format!("{entry}/err.debug"), || format!("{e:?}"));
}

fn exercise_str(rec: &mut Rec, text: &str) {
    if let Some(r) = rec.call("DocumentMut::from_str", || toml_edit::DocumentMut::from_str(text)) {
        match r {
            Ok(d) => {
                rec.call("DocumentMut/to_string", || d.to_string());
                rec.call("DocumentMut/debug", || format!("{d:?}"));
                let c = rec.call("DocumentMut/clone", || d.clone());
                rec.call("DocumentMut/drop-clone", || drop(c));
                rec.call("DocumentMut/from_document", || toml_edit::de::from_document::<toml::Value>(d.clone()).map(|v| v.to_string()));
                rec.call("DocumentMut/from_document-derived", || toml_edit::de::from_document::<Derived>(d.clone()).is_ok());
                rec.call("DocumentMut/drop", || drop(d));
            }
            Err(e) => {
                use_error(rec, "DocumentMut::from_str", &e);
                rec.call("TomlError/span+message", || (e.span(), e.message().len()));
            }
        }
    }
    if let Some(r) = rec.call("ImDocument::parse", || toml_edit::ImDocument::parse(text)) {
        match r {
            Ok(d) => {
                rec.call("ImDocument/debug", || format!("{d:?}"));
                rec.call("ImDocument/to_string", || d.to_string());
                rec.call("ImDocument/from_document", || {
                    toml_edit::ImDocument::parse(text.to_string()).ok().map(|o| toml_edit::de::from_document::<toml::Value>(o).is_ok())
                });
                if let Some(m) = rec.call("ImDocument/into_mut", || d.into_mut()) {
                    rec.call("ImDocument/into_mut/to_string", || m.to_string());
                }
            }
            Err(e) => use_error(rec, "ImDocument::parse", &e),
        }
    }
    if let Some(r) = rec.call("Value::from_str", || toml_edit::Value::from_str(text)) {
        match r {
            Ok(v) => {
                rec.call("Value/to_string", || v.to_string());
                rec.call("Value/debug", || format!("{v:?}"));
                rec.call("Value/clone+drop", || drop(v.clone()));
                rec.call("Value/into_deserializer", || {
                    use serde::de::IntoDeserializer;
                    use serde::Deserialize;
                    toml::Value::deserialize(v.clone().into_deserializer()).is_ok()
                });
            }
            Err(e) => use_error(rec, "Value::from_str", &e),
        }
    }
    if let Some(r) = rec.call("Item::from_str", || toml_edit::Item::from_str(text)) {
        match r {
            Ok(v) => {
                rec.call("Item/to_string", || v.to_string());
                rec.call("Item/debug", || format!("{v:?}"));
            }
            Err(e) => use_error(rec, "Item::from_str", &e),
        }
    }
    if let Some(r) = rec.call("Key::from_str", || toml_edit::Key::from_str(text)) {
        match r {
            Ok(k) => {
                rec.call("Key/to_string", || (k.to_string(), format!("{k:?}"), k.get().len()));
            }
            Err(e) => use_error(rec, "Key::from_str", &e),
        }
    }
    if let Some(r) = rec.call("Key::parse", || toml_edit::Key::parse(text)) {
        match r {
            Ok(ks) => {
                rec.call("Key::parse/debug", || format!("{ks:?}"));
            }
            Err(e) => use_error(rec, "Key::parse", &e),
        }
    }
    if let Some(r) = rec.call("toml::from_str<Table>", || toml::from_str::<toml::Table>(text)) {
        match r {
            Ok(t) => {
                rec.call("toml::Table/to_string", || t.to_string());
                rec.call("toml::Table/debug", || format!("{t:?}"));
                rec.call("toml::Table/clone+drop", || drop(t.clone()));
                rec.call("toml::Table/try_into", || t.clone().try_into::<Derived>().is_ok());
                rec.call("toml::to_string", || toml::to_string(&t).is_ok());
                rec.call("toml::to_string_pretty", || toml::to_string_pretty(&t).is_ok());
            }
            Err(e) => {
                use_error(rec, "toml::from_str<Table>", &e);
                rec.call("toml::de::Error/span+message", || (e.span(), e.message().len()));
            }
        }
    }
    if let Some(r) = rec.call("toml::from_str<Value>", || toml::from_str::<toml::Value>(text)) {
        if let Err(e) = r {
            use_error(rec, "toml::from_str<Value>", &e);
        }
    }
    if let Some(r) = rec.call("toml::from_str<Derived>", || toml::from_str::<Derived>(text)) {
        match r {
            Ok(d) => {
                rec.call("Derived/to_string", || toml::to_string(&d).is_ok());
            }
            Err(e) => use_error(rec, "toml::from_str<Derived>", &e),
        }
    }
    if let Some(r) = rec.call("toml_edit::de::from_str<Value>", || toml_edit::de::from_str::<toml::Value>(text)) {
        if let Err(e) = r {
            use_error(rec, "toml_edit::de::from_str", &e);
        }
    }
    if let Some(r) = rec.call("toml::de::ValueDeserializer", || {
        use serde::Deserialize;
        toml::Value::deserialize(toml::de::ValueDeserializer::new(text))
    }) {
        if let Err(e) = r {
            use_error(rec, "toml::de::ValueDeserializer", &e);
        }
    }
    if let Some(r) = rec.call("toml_edit::de::ValueDeserializer", || {
        use serde::Deserialize;
        text.parse::<toml_edit::de::ValueDeserializer>().and_then(|d| toml::Value::deserialize(d))
    }) {
        if let Err(e) = r {
            use_error(rec, "toml_edit::de::ValueDeserializer", &e);
        }
    }
    if let Some(r) = rec.call("Datetime::from_str", || toml_datetime::Datetime::from_str(text)) {
        match r {
            Ok(d) => {
                rec.call("Datetime/to_string", || (d.to_string(), format!("{d:?}")));
            }
            Err(e) => use_error(rec, "Datetime::from_str", &e),
        }
    }
}

fn exercise_bytes(rec: &mut Rec, b: &[u8]) {
    if let Some(r) = rec.call("toml_edit::de::from_slice<Value>", || toml_edit::de::from_slice::<toml::Value>(b)) {
        match r {
            Ok(v) => {
                rec.call("from_slice/to_string", || v.to_string());
            }
            Err(e) => use_error(rec, "toml_edit::de::from_slice", &e),
        }
    }
    if let Some(r) = rec.call("toml_edit::de::from_slice<Derived>", || toml_edit::de::from_slice::<Derived>(b)) {
        if let Err(e) = r {
            use_error(rec, "toml_edit::de::from_slice<Derived>", &e);
        }
    }
}

/// damaged encodings of a text: truncation inside a multi-byte sequence, overlong forms, surrogates, bytes >= 0xF5
pub fn damaged(text: &str) -> Vec<Vec<u8>> {
    let b = text.as_bytes();
    let mut v = Vec::new();
    for (i, c) in text.char_indices() {
        let l = c.len_utf8();
        if l > 1 {
            for cut in 1..l {
                v.push(b[..i + cut].to_vec()); // truncated inside the sequence
                let mut m = b.to_vec();
                m.drain(i + cut..i + l); // sequence shortened in the middle of the text
                v.push(m);
            }
            let mut m = b.to_vec();
            m[i] = 0xFF;
            v.push(m);
            break;
        }
    }
    for inj in [&[0xC0u8, 0xAF][..], &[0xE0, 0x80, 0xAF], &[0xED, 0xA0, 0x80], &[0xF5, 0x80, 0x80, 0x80], &[0x80], &[0xF4, 0x90, 0x80, 0x80], &[0xFE]] {
        let mut m = b.to_vec();
        let at = m.len() / 2;
        let at = (0..=at).rev().find(|p| text.is_char_boundary(*p)).unwrap_or(0);
        for (k, x) in inj.iter().enumerate() {
            m.insert(at + k, *x);
        }
        v.push(m);
    }
    v
}

/// --in texts.ndjson --progress FILE --budget-ms N --start K --bytes-mod M
pub fn entry_events(args: &Args) {
    let recs = read_ndjson(args.req("in"));
    let progress = args.req("progress").to_string();
    let budget = args.num("budget-ms", 2000) as u128;
    let start = args.num("start", 0) as usize;
    let bytes_mod = args.num("bytes-mod", 10).max(1) as usize;
    let mut out = out_writer(args);
    for (i, r) in recs.iter().enumerate().skip(start) {
        if i % 50 == 0 {
            let _ = std::fs::write(&progress, format!("{i}"));
            out.flush().ok();
        }
        let mut rec = Rec { calls: 0, bad: Vec::new(), budget_ms: budget };
        if let Some(t) = r.get("text") {
            let text = from_cps(t);
            exercise_str(&mut rec, &text);
            // a one-line `k = V`: V on its own goes to every entry point too (the single-value parsers see it bare)
            if let Some(v) = text.strip_prefix("k = ") {
                let v = v.strip_suffix('\n').unwrap_or(v);
                if !v.is_empty() && !v.contains('\n') {
                    exercise_str(&mut rec, v);
                }
            }
            exercise_bytes(&mut rec, text.as_bytes());
            let mut nbytes = 0;
            if i % bytes_mod == 0 {
                for d in damaged(&text) {
                    nbytes += 1;
                    exercise_bytes(&mut rec, &d);
                }
            }
            writeln!(out, "{}", json!({"ev": "api", "id": r["id"], "text": t, "calls": rec.calls, "damaged": nbytes, "bad": rec.bad})).unwrap();
        } else if let Some(b) = r.get("bytes") {
            let b: Vec<u8> = b.as_array().unwrap().iter().map(|x| x.as_u64().unwrap() as u8).collect();
            exercise_bytes(&mut rec, &b);
            writeln!(out, "{}", json!({"ev": "api", "id": r["id"], "text": [], "calls": rec.calls, "damaged": 1, "bad": rec.bad})).unwrap();
        }
    }
    let _ = std::fs::write(&progress, "done");
}

/// --in texts.ndjson --out bytes.ndjson [--mod M] : damaged UTF-8 encodings of the texts as byte-string inputs (C01)
pub fn gen_damaged(args: &Args) {
    let recs = read_ndjson(args.req("in"));
    let m = args.num("mod", 1).max(1) as usize;
    let mut out = out_writer(args);
    for (i, r) in recs.iter().enumerate() {
        if i % m != 0 {
            continue;
        }
        let Some(t) = r.get("text") else { continue };
        let text = from_cps(t);
        for (k, d) in damaged(&text).into_iter().enumerate() {
            writeln!(out, "{}", json!({"id": format!("{}#bytes{k}", r["id"].as_str().unwrap_or("")), "bytes": d})).unwrap();
        }
    }
}
