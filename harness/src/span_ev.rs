//! `span` events (C14) and `err` events (C15).
use crate::gen::{out_writer, read_ndjson};
use crate::proj::{self, cps, from_cps};
use crate::Args;
use serde::de::DeserializeOwned;
use serde_json::{json, Value as J};
use serde_spanned::Spanned;
use std::collections::BTreeMap;
use std::io::Write;
use std::panic::{catch_unwind, AssertUnwindSafe};
use std::str::FromStr;

#[derive(serde::Deserialize)]
struct Plain<T> {
    k: T,
}
#[derive(serde::Deserialize)]
struct Sp<T> {
    k: Spanned<T>,
}

/// a newtype struct is transparent: same values, same error locations as the type it wraps
#[derive(serde::Deserialize)]
struct NewT<T>(T);
impl<T: ToJ> ToJ for NewT<T> {
    fn to_j(&self) -> J {
        self.0.to_j()
    }
}

#[derive(serde::Deserialize, Debug, Clone, Copy)]
enum Kind {
    #[serde(rename = "a")]
    A,
    #[serde(rename = "b")]
    B,
}
impl ToJ for Kind {
    fn to_j(&self) -> J {
        proj::str_j(match self {
            Kind::A => "a",
            Kind::B => "b",
        })
    }
}

impl<A: ToJ, B: ToJ> ToJ for (A, B) {
    fn to_j(&self) -> J {
        json!({"k": "a", "v": [self.0.to_j(), self.1.to_j()]})
    }
}

trait ToJ {
    fn to_j(&self) -> J;
}
impl ToJ for i64 {
    fn to_j(&self) -> J {
        proj::int_j(*self)
    }
}
impl ToJ for f64 {
    fn to_j(&self) -> J {
        proj::float_j(*self)
    }
}
impl ToJ for bool {
    fn to_j(&self) -> J {
        proj::bool_j(*self)
    }
}
impl ToJ for String {
    fn to_j(&self) -> J {
        proj::str_j(self)
    }
}
impl ToJ for toml_datetime::Datetime {
    fn to_j(&self) -> J {
        proj::dt_j(self)
    }
}
impl ToJ for toml::Value {
    fn to_j(&self) -> J {
        proj::toml_value(self)
    }
}
impl<T: ToJ> ToJ for Vec<T> {
    fn to_j(&self) -> J {
        json!({"k": "a", "v": self.iter().map(|x| x.to_j()).collect::<Vec<_>>()})
    }
}
impl<T: ToJ> ToJ for BTreeMap<String, T> {
    fn to_j(&self) -> J {
        json!({"k": "t", "v": self.iter().map(|(k, v)| json!({"key": cps(k), "val": v.to_j()})).collect::<Vec<_>>()})
    }
}
impl<T: ToJ> ToJ for Spanned<T> {
    fn to_j(&self) -> J {
        let mut j = self.get_ref().to_j();
        j["sp"] = json!([self.span().start, self.span().end]);
        j
    }
}
impl<T: ToJ> ToJ for BTreeMap<Spanned<String>, T> {
    fn to_j(&self) -> J {
        json!({"k": "t", "v": self.iter().map(|(k, v)| json!({"key": cps(k.get_ref()), "ksp": [k.span().start, k.span().end], "val": v.to_j()})).collect::<Vec<_>>()})
    }
}

fn err_j(e: &toml::de::Error) -> J {
    let sp = match e.span() {
        Some(r) => json!([r.start, r.end]),
        None => json!([]),
    };
    json!({"span": sp, "msg_nonempty": !e.message().is_empty()})
}

/// decode `text` as struct { k: T } and struct { k: Spanned<T> } with both crates' deserializers
fn typed<T: DeserializeOwned + ToJ>(ty: &str, text: &str, out: &mut Vec<J>) {
    let p = catch_unwind(AssertUnwindSafe(|| toml::from_str::<Plain<T>>(text)));
    let s = catch_unwind(AssertUnwindSafe(|| toml::from_str::<Sp<T>>(text)));
    let pj = match &p {
        Ok(Ok(v)) => json!({"res": "ok", "val": v.k.to_j(), "err": {"span": [], "msg_nonempty": true}}),
        Ok(Err(e)) => json!({"res": "err", "val": proj::dummy(), "err": err_j(e)}),
        Err(_) => json!({"res": "panic", "val": proj::dummy(), "err": {"span": [], "msg_nonempty": true}}),
    };
    let sj = match &s {
        Ok(Ok(v)) => json!({"res": "ok", "val": v.k.get_ref().to_j(), "sp": [v.k.span().start, v.k.span().end], "inner": v.k.to_j()}),
        Ok(Err(_)) => json!({"res": "err", "val": proj::dummy(), "sp": [], "inner": proj::dummy()}),
        Err(_) => json!({"res": "panic", "val": proj::dummy(), "sp": [], "inner": proj::dummy()}),
    };
    // the same target decoded from an editable document: no source text, so errors carry a key path instead
    let dm = catch_unwind(AssertUnwindSafe(|| {
        text.parse::<toml_edit::DocumentMut>().ok().map(|d| toml_edit::de::from_document::<Plain<T>>(d))
    }));
    let dj = match &dm {
        Ok(Some(Ok(v))) => json!({"res": "ok", "val": v.k.to_j(), "span": [], "rendered": []}),
        Ok(Some(Err(e))) => json!({"res": "err", "val": proj::dummy(), "span": e.span().map(|s| vec![s.start, s.end]).unwrap_or_default(),
                                   "rendered": cps(&e.to_string()), "msg_nonempty": !e.message().is_empty()}),
        Ok(None) => json!({"res": "none", "val": proj::dummy(), "span": [], "rendered": []}),
        Err(_) => json!({"res": "panic", "val": proj::dummy(), "span": [], "rendered": []}),
    };
    // the same target through `str::parse::<toml_edit::de::Deserializer>()`: the source text is at hand, so errors
    // are located exactly like on the from_str route
    let fs = catch_unwind(AssertUnwindSafe(|| {
        text.parse::<toml_edit::de::Deserializer>().map(|d| <Plain<T> as serde::Deserialize>::deserialize(d))
    }));
    let fj = match &fs {
        Ok(Ok(Ok(v))) => json!({"res": "ok", "val": v.k.to_j(), "span": []}),
        Ok(Ok(Err(e))) => json!({"res": "err", "val": proj::dummy(), "span": e.span().map(|s| vec![s.start, s.end]).unwrap_or_default()}),
        Ok(Err(e)) => json!({"res": "err", "val": proj::dummy(), "span": e.span().map(|s| vec![s.start, s.end]).unwrap_or_default()}),
        Err(_) => json!({"res": "panic", "val": proj::dummy(), "span": []}),
    };
    out.push(json!({"ty": ty, "plain": pj, "spanned": sj, "from_docmut": dj, "de_fromstr": fj}));
}

/// --in texts.ndjson
pub fn span_events(args: &Args) {
    let recs = read_ndjson(args.req("in"));
    let typed_mod = args.num("typed-mod", 1).max(1) as usize;
    let mut out = out_writer(args);
    for (ri, r) in recs.iter().enumerate() {
        if r.get("text").is_none() {
            continue;
        }
        let text = from_cps(&r["text"]);
        let im = catch_unwind(AssertUnwindSafe(|| toml_edit::ImDocument::parse(text.as_str())));
        let (res, tree, mut_tree) = match im {
            Ok(Ok(d)) => {
                let t = proj::edit_table(d.as_table(), true);
                let m = proj::edit_table(d.into_mut().as_table(), true);
                ("ok", t, m)
            }
            Ok(Err(_)) => ("err", proj::dummy(), proj::dummy()),
            Err(_) => ("panic", proj::dummy(), proj::dummy()),
        };
        // DocumentMut::from_str must not carry spans either
        let dm = match catch_unwind(AssertUnwindSafe(|| toml_edit::DocumentMut::from_str(&text))) {
            Ok(Ok(d)) => proj::edit_table(d.as_table(), true),
            _ => proj::dummy(),
        };
        let mut ty = Vec::new();
        if res == "ok" && ri % typed_mod == 0 {
            typed::<i64>("i64", &text, &mut ty);
            typed::<f64>("f64", &text, &mut ty);
            typed::<bool>("bool", &text, &mut ty);
            typed::<String>("string", &text, &mut ty);
            typed::<toml_datetime::Datetime>("datetime", &text, &mut ty);
            typed::<Vec<toml::Value>>("array", &text, &mut ty);
            typed::<Vec<Spanned<toml::Value>>>("array_spanned", &text, &mut ty);
            typed::<BTreeMap<String, toml::Value>>("table", &text, &mut ty);
            typed::<BTreeMap<Spanned<String>, Spanned<toml::Value>>>("table_spanned", &text, &mut ty);
            typed::<toml::Value>("value", &text, &mut ty);
            typed::<Vec<i64>>("int_array", &text, &mut ty);
            typed::<NewT<Vec<i64>>>("newtype_int_array", &text, &mut ty);
            typed::<NewT<i64>>("newtype_i64", &text, &mut ty);
            typed::<Kind>("enum", &text, &mut ty);
            typed::<Vec<Kind>>("enum_array", &text, &mut ty);
            typed::<Vec<(Kind, i64)>>("enum_tuple_array", &text, &mut ty);
        }
        // the whole document as Spanned<Table>: wrapping never changes whether decoding succeeds, also when the root
        // table's own range is empty (a document that starts with a header)
        let root = {
            let p = catch_unwind(AssertUnwindSafe(|| toml::from_str::<toml::Table>(&text).map(|t| proj::toml_table(&t))));
            let s = catch_unwind(AssertUnwindSafe(|| toml::from_str::<Spanned<toml::Table>>(&text).map(|t| (proj::toml_table(t.get_ref()), t.span()))));
            let pj = match &p { Ok(Ok(t)) => json!({"res": "ok", "val": t}), Ok(Err(_)) => json!({"res": "err", "val": proj::dummy()}), Err(_) => json!({"res": "panic", "val": proj::dummy()}) };
            let sj = match &s {
                Ok(Ok((t, sp))) => json!({"res": "ok", "val": t, "sp": [sp.start, sp.end]}),
                Ok(Err(_)) => json!({"res": "err", "val": proj::dummy(), "sp": []}),
                Err(_) => json!({"res": "panic", "val": proj::dummy(), "sp": []}),
            };
            json!({"plain": pj, "spanned": sj})
        };
        writeln!(out, "{}", json!({"ev": "span", "id": r["id"], "text": r["text"], "res": res, "tree": tree,
                                   "into_mut": mut_tree, "docmut": dm, "typed": ty, "root": root})).unwrap();
    }
}

fn parse_line_col(rendered: &str) -> J {
    // "TOML parse error at line L, column C"
    let first = rendered.lines().next().unwrap_or("");
    let nums: Vec<u64> = first
        .split(|c: char| !c.is_ascii_digit())
        .filter(|s| !s.is_empty())
        .filter_map(|s| s.parse().ok())
        .collect();
    if first.starts_with("TOML parse error at line") && nums.len() == 2 {
        json!([nums[0], nums[1]])
    } else {
        json!([])
    }
}

/// --in texts.ndjson : every rejection's message, span, rendering
pub fn err_events(args: &Args) {
    let recs = read_ndjson(args.req("in"));
    let mut out = out_writer(args);
    for r in &recs {
        if r.get("text").is_none() {
            continue;
        }
        let text = from_cps(&r["text"]);
        let mut es = Vec::new();
        // toml_edit::TomlError
        match catch_unwind(AssertUnwindSafe(|| toml_edit::DocumentMut::from_str(&text))) {
            Ok(Ok(_)) => {}
            Ok(Err(e)) => {
                let rend = catch_unwind(AssertUnwindSafe(|| (e.to_string(), format!("{e:?}"), e.clone().to_string())));
                let (lc, rpanic) = match &rend {
                    Ok((s, _, _)) => (parse_line_col(s), false),
                    Err(_) => (json!([]), true),
                };
                let sp = match e.span() {
                    Some(r) => json!([r.start, r.end]),
                    None => json!([]),
                };
                es.push(json!({"fe": "edit", "msg_nonempty": !e.message().is_empty(), "span": sp, "linecol": lc, "render_panic": rpanic}));
            }
            Err(_) => es.push(json!({"fe": "edit", "msg_nonempty": false, "span": [], "linecol": [], "render_panic": true})),
        }
        match catch_unwind(AssertUnwindSafe(|| toml::from_str::<toml::Table>(&text))) {
            Ok(Ok(_)) => {}
            Ok(Err(e)) => {
                let rend = catch_unwind(AssertUnwindSafe(|| (e.to_string(), format!("{e:?}"))));
                let (lc, rpanic) = match &rend {
                    Ok((s, _)) => (parse_line_col(s), false),
                    Err(_) => (json!([]), true),
                };
                let sp = match e.span() {
                    Some(r) => json!([r.start, r.end]),
                    None => json!([]),
                };
                es.push(json!({"fe": "toml", "msg_nonempty": !e.message().is_empty(), "span": sp, "linecol": lc, "render_panic": rpanic}));
            }
            Err(_) => es.push(json!({"fe": "toml", "msg_nonempty": false, "span": [], "linecol": [], "render_panic": true})),
        }
        if es.is_empty() {
            continue;
        }
        writeln!(out, "{}", json!({"ev": "err", "id": r["id"], "text": r["text"], "errs": es})).unwrap();
    }
}
