//! Conformance harness binding the TLA+ specification in /verif/spec to toml-rs/toml.
//! Contains drivers and projections only; every verdict comes from TLC.
mod proj;
mod parse_ev;
mod gen;
mod rt_ev;
mod api_ev;
mod span_ev;
mod entry_ev;
mod depth_ev;
mod hist_ev;
mod sdm;
mod serde_ev;
mod visit_ev;
mod build_ev;
mod edit_ev;
mod digest_ev;
mod digest_parse;

use std::collections::HashMap;

pub struct Args {
    pub pos: Vec<String>,
    pub opt: HashMap<String, String>,
}

impl Args {
    pub fn get(&self, k: &str) -> Option<&str> {
        self.opt.get(k).map(|s| s.as_str())
    }
    pub fn req(&self, k: &str) -> &str {
        self.get(k).unwrap_or_else(|| {
            eprintln!("missing --{k}");
            std::process::exit(2)
        })
    }
    pub fn num(&self, k: &str, d: u64) -> u64 {
        self.get(k).map(|s| s.parse().expect("number")).unwrap_or(d)
    }
}

fn parse_args() -> (String, Args) {
    let mut it = std::env::args().skip(1);
    let cmd = it.next().unwrap_or_default();
    let mut pos = Vec::new();
    let mut opt = HashMap::new();
    while let Some(a) = it.next() {
        if let Some(k) = a.strip_prefix("--") {
            let v = it.next().unwrap_or_default();
            opt.insert(k.to_string(), v);
        } else {
            pos.push(a);
        }
    }
    (cmd, Args { pos, opt })
}

fn real_main() {
    let (cmd, args) = parse_args();
    // panics inside the code under test are data: silence the default hook
    std::panic::set_hook(Box::new(|_| {}));
    match cmd.as_str() {
        "gen-corpus" => gen::gen_corpus(&args),
        "gen-mutants" => gen::gen_mutants(&args),
        "parse-events" => parse_ev::parse_events(&args),
        "flags-events" => parse_ev::flags_events(&args),
        "roundtrip-events" => rt_ev::roundtrip_events(&args),
        "value-events" => api_ev::value_events(&args),
        "dt-events" => api_ev::dt_events(&args),
        "num-events" => api_ev::num_events(&args),
        "quote-events" => api_ev::quote_events(&args),
        "serdeint-events" => api_ev::serdeint_events(&args),
        "span-events" => span_ev::span_events(&args),
        "err-events" => span_ev::err_events(&args),
        "entry-events" => entry_ev::entry_events(&args),
        "gen-damaged" => entry_ev::gen_damaged(&args),
        "depth-events" => depth_ev::depth_events(&args),
        "depth-render" => depth_ev::depth_render(&args),
        "hist-events" => hist_ev::hist_events(&args),
        "gen-hist" => hist_ev::gen_hist(&args),
        "serde-events" => serde_ev::serde_events(&args),
        "visit-events" => visit_ev::visit_events(&args),
        "build-events" => build_ev::build_events(&args),
        "edit-events" => edit_ev::edit_events(&args),
        "gen-edit-random" => edit_ev::gen_edit_random(&args),
        "digest" => digest_ev::digest(&args),
        _ => {
            eprintln!("unknown command {cmd:?}");
            std::process::exit(2);
        }
    }
}

fn main() {
    // projections recurse over documents: give the worker a large stack
    let h = std::thread::Builder::new()
        .stack_size(1 << 30)
        .spawn(real_main)
        .expect("spawn");
    if h.join().is_err() {
        std::process::exit(2);
    }
}
