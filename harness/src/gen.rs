//! Input generators that do not come from the specification: the toml-test corpus and seeded
//! single-edit mutants of texts (substitute / insert / delete / truncate with one symbol per
//! terminal-class boundary of toml.abnf).
use crate::proj::cps;
use crate::Args;
use rand::rngs::StdRng;
use rand::{Rng, SeedableRng};
use serde_json::{json, Value as J};
use std::io::{BufRead, BufWriter, Write};

pub fn out_writer(args: &Args) -> Box<dyn Write> {
    match args.get("out") {
        Some(p) => Box::new(BufWriter::new(std::fs::File::create(p).expect("create out"))),
        None => Box::new(BufWriter::new(std::io::stdout())),
    }
}

pub fn read_ndjson(path: &str) -> Vec<J> {
    let f = std::fs::File::open(path).unwrap_or_else(|e| {
        eprintln!("open {path}: {e}");
        std::process::exit(2)
    });
    std::io::BufReader::new(f)
        .lines()
        .map(|l| l.expect("line"))
        .filter(|l| !l.trim().is_empty())
        .map(|l| serde_json::from_str(&l).expect("json line"))
        .collect()
}

pub fn gen_corpus(args: &Args) {
    let dir = args.req("dir");
    let list = std::fs::read_to_string(format!("{dir}/files-toml-1.0.0")).expect("file list");
    let mut out = out_writer(args);
    for name in list.lines() {
        if !name.ends_with(".toml") {
            continue;
        }
        let bytes = std::fs::read(format!("{dir}/{name}")).expect("corpus file");
        let lab = if name.starts_with("valid/") { "valid" } else { "invalid" };
        let rec = match std::str::from_utf8(&bytes) {
            Ok(s) => json!({"id": name, "lab": lab, "text": cps(s)}),
            Err(_) => json!({"id": name, "lab": lab, "bytes": bytes}),
        };
        writeln!(out, "{rec}").unwrap();
    }
}

/// One symbol per terminal-class boundary of the ABNF plus the structural characters.
pub const SYMBOLS: &[u32] = &[
    0x00, 0x08, 0x09, 0x0A, 0x0B, 0x0C, 0x0D, 0x1F, 0x20, 0x21, 0x22, 0x23, 0x27, 0x2B, 0x2C, 0x2D, 0x2E, 0x2F,
    0x30, 0x31, 0x32, 0x37, 0x38, 0x39, 0x3A, 0x3D, 0x41, 0x45, 0x46, 0x47, 0x54, 0x55, 0x5A, 0x5B, 0x5C, 0x5D,
    0x5F, 0x61, 0x62, 0x65, 0x66, 0x67, 0x69, 0x6E, 0x6F, 0x72, 0x74, 0x75, 0x78, 0x7A, 0x7B, 0x7D, 0x7E, 0x7F,
    0x80, 0xE9, 0x7FF, 0x800, 0xD7FF, 0xE000, 0xFEFF, 0xFFFF, 0x10000, 0x10FFFF,
];

pub fn mutate(text: &[u32], rng: &mut StdRng) -> Vec<u32> {
    let mut t = text.to_vec();
    let n = t.len();
    let sym = SYMBOLS[rng.gen_range(0..SYMBOLS.len())];
    match rng.gen_range(0..10) {
        0..=3 if n > 0 => {
            let p = rng.gen_range(0..n);
            t[p] = sym;
        }
        4..=6 => {
            let p = rng.gen_range(0..=n);
            t.insert(p, sym);
        }
        7..=8 if n > 0 => {
            let p = rng.gen_range(0..n);
            t.remove(p);
        }
        _ => {
            if n > 0 {
                let p = rng.gen_range(0..n);
                t.truncate(p);
            }
        }
    }
    t
}

/// --in texts.ndjson --per N --seed S --maxlen L [--double 1]
pub fn gen_mutants(args: &Args) {
    let recs = read_ndjson(args.req("in"));
    let per = args.num("per", 10);
    let seed = args.num("seed", 1);
    let maxlen = args.num("maxlen", 200) as usize;
    let mut rng = StdRng::seed_from_u64(seed);
    let mut out = out_writer(args);
    let mut seen = std::collections::HashSet::new();
    for r in &recs {
        let Some(t) = r.get("text").and_then(|t| t.as_array()) else { continue };
        if t.len() > maxlen {
            continue;
        }
        let text: Vec<u32> = t.iter().map(|x| x.as_u64().unwrap() as u32).collect();
        let id = r["id"].as_str().unwrap_or("");
        for k in 0..per {
            let mut m = mutate(&text, &mut rng);
            if rng.gen_range(0..4) == 0 {
                m = mutate(&m, &mut rng);
            }
            if m == text || !seen.insert(m.clone()) {
                continue;
            }
            writeln!(out, "{}", json!({"id": format!("{id}#m{k}"), "text": m})).unwrap();
        }
    }
}
