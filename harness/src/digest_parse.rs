//! The parse-only digest of C18 (shared, by path, with the generated parse-only crate): verdict and tree with spans,
//! no printing involved.
use crate::proj;
use serde_json::{json, Value as J};

/// FNV-1a over the canonical JSON text
pub fn h(j: &J) -> String {
    let s = j.to_string();
    let mut x: u64 = 0xcbf29ce484222325;
    for b in s.bytes() {
        x ^= b as u64;
        x = x.wrapping_mul(0x100000001b3);
    }
    format!("{x:016x}")
}

pub fn parse_only(text: &str) -> String {
    let j = std::panic::catch_unwind(|| match toml_edit::ImDocument::parse(text) {
        Ok(d) => json!({"res": "ok", "tree": proj::edit_table(d.as_table(), true)}),
        Err(_) => json!({"res": "err"}),
    })
    .unwrap_or(json!({"res": "panic"}));
    h(&j)
}


/// Conversions of Rust values into `toml::Value` that must not depend on the feature configuration (they need
/// neither parsing nor printing): a map whose serializer announces an absurd length, a struct with a `None` field.
pub fn try_from_probe() -> String {
    use serde::ser::{SerializeMap, SerializeStruct};
    struct Squares;
    impl serde::Serialize for Squares {
        fn serialize<S: serde::Serializer>(&self, s: S) -> Result<S::Ok, S::Error> {
            let mut m = s.serialize_map(Some(usize::MAX))?;
            for i in 1..=3u32 {
                m.serialize_entry(&format!("n{i}"), &(i * i))?;
            }
            m.end()
        }
    }
    struct Package;
    impl serde::Serialize for Package {
        fn serialize<S: serde::Serializer>(&self, s: S) -> Result<S::Ok, S::Error> {
            let mut st = s.serialize_struct("Package", 3)?;
            st.serialize_field("name", "demo")?;
            st.serialize_field("version", &None::<String>)?;
            st.serialize_field("edition", &Some(2021u32))?;
            st.end()
        }
    }
    fn shape(v: &toml::Value) -> J {
        match v {
            toml::Value::Table(t) => {
                let mut es: Vec<(String, J)> = t.iter().map(|(k, v)| (k.clone(), shape(v))).collect();
                es.sort_by(|a, b| a.0.cmp(&b.0));
                json!({"t": es})
            }
            toml::Value::Array(a) => json!({"a": a.iter().map(shape).collect::<Vec<_>>()}),
            toml::Value::Integer(i) => json!({"i": i}),
            toml::Value::String(s) => json!({"s": s}),
            _ => json!("other"),
        }
    }
    let one = |r: std::thread::Result<Result<toml::Value, toml::ser::Error>>| match r {
        Ok(Ok(v)) => shape(&v),
        Ok(Err(_)) => json!("err"),
        Err(_) => json!("panic"),
    };
    let a = one(std::panic::catch_unwind(|| toml::Value::try_from(Squares)));
    let b = one(std::panic::catch_unwind(|| toml::Value::try_from(Package)));
    let mut m = std::collections::BTreeMap::new();
    m.insert("k".to_string(), None::<i64>);
    m.insert("j".to_string(), Some(1i64));
    let c = one(std::panic::catch_unwind(|| toml::Value::try_from(m.clone())));
    h(&json!([a, b, c]))
}
