//! The parse-only digest of C18 (shared, by path, with the generated parse-only crate): verdict and tree with spans,
//! no printing involved.
use crate::proj;
use serde_json::{json, Value as J};

/// FNV-1a over the canonical JSON text
pub fn h(j: &J) -> String {
    let s = j.to_string();
    let mut x: u64 = 0xcbf29ce484222325;
    for b in s.bytes() {
        x ^= b as u64;
        x = x.wrapping_mul(0x100000001b3);
    }
    format!("{x:016x}")
}

pub fn parse_only(text: &str) -> String {
    let j = std::panic::catch_unwind(|| match toml_edit::ImDocument::parse(text) {
        Ok(d) => json!({"res": "ok", "tree": proj::edit_table(d.as_table(), true)}),
        Err(_) => json!({"res": "err"}),
    })
    .unwrap_or(json!({"res": "panic"}));
    h(&j)
}
