//! Events for the sub-entry points: value / key / key path / date-time parsers (C01, C04, C12),
//! number printing (C11) and string/key quoting (C10).
use crate::gen::{out_writer, read_ndjson};
use crate::proj::{self, cps, from_cps};
use crate::Args;
use rand::rngs::StdRng;
use rand::{Rng, SeedableRng};
use serde_json::{json, Value as J};
use std::io::Write;
use std::panic::{catch_unwind, AssertUnwindSafe};
use std::str::FromStr;

fn guard<T>(f: impl FnOnce() -> Result<T, String>) -> Result<Result<T, String>, ()> {
    catch_unwind(AssertUnwindSafe(f)).map_err(|_| ())
}

fn res3<T>(r: Result<Result<T, String>, ()>, f: impl FnOnce(T) -> J) -> (String, J) {
    match r {
        Ok(Ok(v)) => ("ok".into(), f(v)),
        Ok(Err(_)) => ("err".into(), proj::dummy()),
        Err(()) => ("panic".into(), proj::dummy()),
    }
}

/// --in texts.ndjson : Value::from_str, Key::from_str, Key::parse on every text
pub fn value_events(args: &Args) {
    let recs = read_ndjson(args.req("in"));
    let mut out = out_writer(args);
    for r in &recs {
        if r.get("text").is_none() {
            continue;
        }
        let text = from_cps(&r["text"]);
        let (vres, vtree) = res3(guard(|| toml_edit::Value::from_str(&text).map_err(|e| e.to_string())), |v| {
            proj::edit_value(&v, false)
        });
        let (kres, kval) = res3(guard(|| toml_edit::Key::from_str(&text).map_err(|e| e.to_string())), |k| {
            json!({"k": "s", "v": cps(k.get())})
        });
        let (pres, pval) = res3(guard(|| toml_edit::Key::parse(&text).map_err(|e| e.to_string())), |ks| {
            json!({"k": "a", "v": ks.iter().map(|k| json!({"k": "s", "v": cps(k.get())})).collect::<Vec<_>>()})
        });
        // the single-value deserializers of both crates (C13): the value decoded into toml::Value
        let (tres, ttree) = res3(
            guard(|| {
                use serde::Deserialize;
                toml::Value::deserialize(toml::de::ValueDeserializer::new(&text)).map_err(|e| e.to_string())
            }),
            |v| proj::toml_value(&v),
        );
        let (eres, etree) = res3(
            guard(|| {
                use serde::Deserialize;
                let d = text.parse::<toml_edit::de::ValueDeserializer>().map_err(|e| e.to_string())?;
                toml::Value::deserialize(d).map_err(|e| e.to_string())
            }),
            |v| proj::toml_value(&v),
        );
        writeln!(
            out,
            "{}",
            json!({"ev": "value", "id": r["id"], "text": r["text"],
                   "vde_toml": {"res": tres, "tree": ttree}, "vde_edit": {"res": eres, "tree": etree},
                   "value": {"res": vres, "tree": vtree},
                   "key": {"res": kres, "tree": kval},
                   "keypath": {"res": pres, "tree": pval}})
        )
        .unwrap();
    }
}

fn dt_doc(text: &str) -> Result<toml_datetime::Datetime, String> {
    // the document grammar: the string as the whole value of a key
    let src = format!("k = {text}");
    let doc = toml_edit::ImDocument::parse(src.as_str()).map_err(|e| e.to_string())?;
    match doc.get("k").and_then(|i| i.as_value()) {
        Some(v @ toml_edit::Value::Datetime(d)) if doc.as_table().len() == 1 && v.span() == Some(4..src.len()) => Ok(*d.value()),
        _ => Err("not a single date-time value".into()),
    }
}

/// --in texts.ndjson : the standalone date-time parser, the document parser, the printer
pub fn dt_events(args: &Args) {
    let recs = read_ndjson(args.req("in"));
    let mut out = out_writer(args);
    for r in &recs {
        if r.get("text").is_none() {
            continue;
        }
        let text = from_cps(&r["text"]);
        let std_r = guard(|| toml_datetime::Datetime::from_str(&text).map_err(|e| e.to_string()));
        let doc_r = guard(|| dt_doc(&text));
        let mut printed = json!([]);
        let mut re_std = json!({"res": "none", "tree": proj::dummy()});
        let mut re_doc = json!({"res": "none", "tree": proj::dummy()});
        let mut serde_rt = json!({"res": "none", "tree": proj::dummy()});
        let first = match (&std_r, &doc_r) {
            (Ok(Ok(d)), _) => Some(*d),
            (_, Ok(Ok(d))) => Some(*d),
            _ => None,
        };
        if let Some(d) = first {
            if let Ok(p) = catch_unwind(AssertUnwindSafe(|| d.to_string())) {
                printed = cps(&p);
                let (a, b) = res3(guard(|| toml_datetime::Datetime::from_str(&p).map_err(|e| e.to_string())), |d| proj::dt_j(&d));
                re_std = json!({"res": a, "tree": b});
                let (a, b) = res3(guard(|| dt_doc(&p)), |d| proj::dt_j(&d));
                re_doc = json!({"res": a, "tree": b});
            } else {
                printed = cps("<<panic>>");
            }
            // serde bridge: a struct field of type Datetime through to_string / from_str
            #[derive(serde::Serialize, serde::Deserialize)]
            struct W {
                k: toml_datetime::Datetime,
            }
            let (a, b) = res3(
                guard(|| {
                    let s = toml::to_string(&W { k: d }).map_err(|e| e.to_string())?;
                    let w: W = toml::from_str(&s).map_err(|e| e.to_string())?;
                    Ok(w.k)
                }),
                |d| proj::dt_j(&d),
            );
            serde_rt = json!({"res": a, "tree": b});
        }
        let (sres, sval) = res3(std_r, |d| proj::dt_j(&d));
        let (dres, dval) = res3(doc_r, |d| proj::dt_j(&d));
        writeln!(
            out,
            "{}",
            json!({"ev": "dt", "id": r["id"], "text": r["text"],
                   "std": {"res": sres, "tree": sval}, "doc": {"res": dres, "tree": dval},
                   "printed": printed, "re_std": re_std, "re_doc": re_doc, "serde": serde_rt})
        )
        .unwrap();
    }
}

/// opaque bit-pattern token; NaNs are identified by sign only (TOML cannot spell a payload)
fn ftok(f: f64) -> String {
    if f.is_nan() {
        format!("fnan{}", if f.is_sign_negative() { "-" } else { "+" })
    } else {
        format!("f{}", hex64(f.to_bits()))
    }
}

fn hex64(b: u64) -> String {
    format!("{b:016x}")
}

fn reparse_value(text: &str, as_f32: bool) -> (String, String, J) {
    // returns (res, bits-or-int token, projected value)
    match guard(|| toml_edit::Value::from_str(text).map_err(|e| e.to_string())) {
        Ok(Ok(v)) => {
            let tok = match &v {
                toml_edit::Value::Float(f) if as_f32 => ftok((*f.value() as f32) as f64),
                toml_edit::Value::Float(f) => ftok(*f.value()),
                toml_edit::Value::Integer(i) => format!("i{}", hex64(*i.value() as u64)),
                _ => "other".to_string(),
            };
            ("ok".into(), tok, proj::edit_value(&v, false))
        }
        Ok(Err(_)) => ("err".into(), String::new(), proj::dummy()),
        Err(()) => ("panic".into(), String::new(), proj::dummy()),
    }
}

fn num_event(out: &mut dyn Write, id: String, route: &str, orig_tok: String, orig: J, text: Result<String, ()>) {
    let (tres, t) = match text {
        Ok(t) => ("ok", t),
        Err(()) => ("panic", String::new()),
    };
    let (rres, rtok, rval) = reparse_value(&t, route.ends_with("f32"));
    writeln!(
        out,
        "{}",
        json!({"ev": "num", "id": id, "route": route, "orig": orig, "orig_tok": orig_tok, "pres": tres,
               "text": cps(&t), "re": {"res": rres, "tok": rtok, "tree": rval}})
    )
    .unwrap();
}

fn f64_cases(rng: &mut StdRng, n: u64) -> Vec<f64> {
    let mut v: Vec<f64> = vec![
        0.0, -0.0, 1.0, -1.0, 0.1, 0.5, 1.5, 3.14, 1e15, 1e16, 1e17, 1e21, 1e22, 1e23, 123456789012345680.0, 1e-5, 1e-7,
        f64::MIN_POSITIVE, f64::MAX, f64::MIN, f64::EPSILON, 5e-324, 2.2250738585072009e-308, 9007199254740991.0,
        9007199254740992.0, 9007199254740993.0, f64::INFINITY, f64::NEG_INFINITY, f64::NAN, -f64::NAN, 1e300, 1e-300,
        4.35, 0.3, 2.5e-8, 1e7, 12345678.9, 0.000001, 999999999999999.9, 1e100,
    ];
    for k in 0..64 {
        v.push((1u64 << k) as f64);
        v.push(((1u64 << k) as f64) + 1.0);
        v.push(-((1u64 << k) as f64));
    }
    for e in -30..30 {
        v.push(10f64.powi(e));
        v.push(-(10f64.powi(e)) * 1.000001);
    }
    for _ in 0..n {
        v.push(f64::from_bits(rng.gen::<u64>()));
        // uniform over decimal exponents
        let e: i32 = rng.gen_range(-320..309);
        let m: f64 = rng.gen_range(1.0..10.0);
        let digits = rng.gen_range(1..17);
        let s = format!("{:.*}e{}", digits, m, e);
        if let Ok(f) = s.parse::<f64>() {
            v.push(if rng.gen() { f } else { -f });
        }
    }
    v
}

/// --seed S --n N : print numbers with every writer, parse them back
pub fn num_events(args: &Args) {
    use toml_write::ToTomlValue;
    let seed = args.num("seed", 1);
    let n = args.num("n", 1000);
    let mut rng = StdRng::seed_from_u64(seed);
    let mut out = out_writer(args);
    let mut idx = 0u64;
    for f in f64_cases(&mut rng, n) {
        idx += 1;
        let tok = ftok(f);
        let oj = proj::float_j(f);
        num_event(&mut out, format!("f64#{idx}"), "toml_write_f64", tok.clone(), oj.clone(),
                  catch_unwind(AssertUnwindSafe(|| f.to_toml_value())).map_err(|_| ()));
        num_event(&mut out, format!("f64#{idx}"), "edit_value_display", tok.clone(), oj.clone(),
                  catch_unwind(AssertUnwindSafe(|| toml_edit::Value::from(f).to_string().trim().to_string())).map_err(|_| ()));
        num_event(&mut out, format!("f64#{idx}"), "toml_value_display", tok.clone(), oj.clone(),
                  catch_unwind(AssertUnwindSafe(|| toml::Value::Float(f).to_string())).map_err(|_| ()));
        // f32 writer: the value written is the f32; its exact double value must come back
        let g = f as f32;
        if (g as f64).is_finite() || g.is_nan() || g.is_infinite() {
            let tok32 = ftok(g as f64);
            num_event(&mut out, format!("f32#{idx}"), "toml_write_f32", tok32, proj::float32_j(g),
                      catch_unwind(AssertUnwindSafe(|| g.to_toml_value())).map_err(|_| ()));
        }
    }
    let mut ints: Vec<i64> = vec![0, 1, -1, i64::MAX, i64::MIN, i64::MAX - 1, i64::MIN + 1, 42, -42, 1_000_000];
    for k in 0..63 {
        ints.push(1i64 << k);
        ints.push((1i64 << k) - 1);
        ints.push(-(1i64 << k));
        ints.push(-(1i64 << k) + 1);
    }
    for _ in 0..n {
        ints.push(rng.gen::<i64>());
        ints.push(rng.gen::<i64>() >> rng.gen_range(0..63));
    }
    for i in ints {
        idx += 1;
        let tok = format!("i{}", hex64(i as u64));
        let oj = proj::int_j(i);
        num_event(&mut out, format!("i64#{idx}"), "toml_write_i64", tok.clone(), oj.clone(),
                  catch_unwind(AssertUnwindSafe(|| i.to_toml_value())).map_err(|_| ()));
        num_event(&mut out, format!("i64#{idx}"), "edit_value_display", tok.clone(), oj.clone(),
                  catch_unwind(AssertUnwindSafe(|| toml_edit::Value::from(i).to_string().trim().to_string())).map_err(|_| ()));
        num_event(&mut out, format!("i64#{idx}"), "toml_value_display", tok.clone(), oj.clone(),
                  catch_unwind(AssertUnwindSafe(|| toml::Value::Integer(i).to_string())).map_err(|_| ()));
        if let Ok(x) = i32::try_from(i) {
            num_event(&mut out, format!("i32#{idx}"), "toml_write_i32", tok.clone(), oj.clone(),
                      catch_unwind(AssertUnwindSafe(|| x.to_toml_value())).map_err(|_| ()));
        }
        if let Ok(x) = u8::try_from(i) {
            num_event(&mut out, format!("u8#{idx}"), "toml_write_u8", tok.clone(), oj.clone(),
                      catch_unwind(AssertUnwindSafe(|| x.to_toml_value())).map_err(|_| ()));
        }
        if let Ok(x) = u64::try_from(i) {
            num_event(&mut out, format!("u64#{idx}"), "toml_write_u64", tok.clone(), oj.clone(),
                      catch_unwind(AssertUnwindSafe(|| x.to_toml_value())).map_err(|_| ()));
        }
        num_event(&mut out, format!("i128#{idx}"), "toml_write_i128", tok.clone(), oj.clone(),
                  catch_unwind(AssertUnwindSafe(|| (i as i128).to_toml_value())).map_err(|_| ()));
    }
}

/// The 14-class alphabet of C10.
pub const QALPHA: &[char] = &['"', '\'', '\\', '\n', '\r', '\t', ' ', '\0', '\u{1f}', '\u{7f}', '#', 'a', '\u{e9}', '\u{1F600}'];

fn quote_event(out: &mut Vec<J>, s: &str, pos: &str, style: &str, tok: Option<String>) {
    // the real parser on the token: alone and inside a document
    let (alone, indoc) = match &tok {
        None => (json!("none"), json!("none")),
        Some(t) => {
            if pos == "key" {
                let a = match guard(|| toml_edit::Key::from_str(t).map_err(|e| e.to_string())) {
                    Ok(Ok(k)) => {
                        if k.get() == s { "same" } else { "differs" }
                    }
                    Ok(Err(_)) => "err",
                    Err(()) => "panic",
                };
                // the parent key of the dotted use must not be the key under test
                let parent = if s == "x" { "y" } else { "x" };
                let d = match guard(|| toml_edit::DocumentMut::from_str(&format!("{t} = 1\n{parent}.{t} = 2\n")).map_err(|e| e.to_string())) {
                    Ok(Ok(doc)) => {
                        let ok1 = doc.as_table().iter().next().map(|(k, _)| k == s).unwrap_or(false);
                        let ok2 = doc.get(parent).and_then(|x| x.as_table_like()).map(|t| t.iter().any(|(k, _)| k == s)).unwrap_or(false);
                        if ok1 && ok2 { "same" } else { "differs" }
                    }
                    Ok(Err(_)) => "err",
                    Err(()) => "panic",
                };
                (json!(a), json!(d))
            } else {
                let a = match guard(|| toml_edit::Value::from_str(t).map_err(|e| e.to_string())) {
                    Ok(Ok(v)) => {
                        if v.as_str() == Some(s) { "same" } else { "differs" }
                    }
                    Ok(Err(_)) => "err",
                    Err(()) => "panic",
                };
                let d = match guard(|| toml_edit::DocumentMut::from_str(&format!("k = {t}\nj = [{t}, {{q = {t}}}]\n")).map_err(|e| e.to_string())) {
                    Ok(Ok(doc)) => {
                        if doc.get("k").and_then(|v| v.as_str()) == Some(s) { "same" } else { "differs" }
                    }
                    Ok(Err(_)) => "err",
                    Err(()) => "panic",
                };
                (json!(a), json!(d))
            }
        }
    };
    let (offered, token) = match tok {
        Some(t) => (true, cps(&t)),
        None => (false, json!([])),
    };
    if let Some(g) = out.iter_mut().find(|g| g["pos"] == pos && g["offered"] == offered && g["token"] == token && g["alone"] == alone && g["indoc"] == indoc) {
        g["style"].as_array_mut().unwrap().push(json!(style));
        return;
    }
    out.push(json!({"pos": pos, "style": [style], "offered": offered, "token": token, "alone": alone, "indoc": indoc}));
}

fn quote_all(w: &mut dyn Write, s: &str) {
    let mut qs: Vec<J> = Vec::new();
    let out = &mut qs;
    use toml_write::{ToTomlKey, ToTomlValue, TomlKeyBuilder, TomlStringBuilder};
    let kb = TomlKeyBuilder::new(s);
    let g = |f: &dyn Fn() -> Option<String>| catch_unwind(AssertUnwindSafe(f)).unwrap_or(Some("<<panic>>".into()));
    quote_event(out, s, "key", "unquoted", g(&|| kb.as_unquoted().map(|k| k.to_toml_key())));
    quote_event(out, s, "key", "literal", g(&|| kb.as_literal().map(|k| k.to_toml_key())));
    quote_event(out, s, "key", "basic_pretty", g(&|| kb.as_basic_pretty().map(|k| k.to_toml_key())));
    quote_event(out, s, "key", "basic", g(&|| Some(kb.as_basic().to_toml_key())));
    quote_event(out, s, "key", "default", g(&|| Some(kb.as_default().to_toml_key())));
    quote_event(out, s, "key", "str_to_toml_key", g(&|| Some(s.to_string().to_toml_key())));
    quote_event(out, s, "key", "edit_key_display", g(&|| Some(toml_edit::Key::new(s).to_string())));
    // the builder computes its metrics eagerly: a panic there is data, not a harness failure
    let sb = match catch_unwind(AssertUnwindSafe(|| TomlStringBuilder::new(s))) {
        Ok(b) => b,
        Err(_) => {
            for style in ["literal", "ml_literal", "basic_pretty", "ml_basic_pretty", "basic", "ml_basic", "default"] {
                quote_event(out, s, "value", style, Some("<<panic>>".into()));
            }
            quote_event(out, s, "value", "str_to_toml_value", g(&|| Some(s.to_string().to_toml_value())));
            quote_event(out, s, "value", "edit_value_display", g(&|| Some(toml_edit::Value::from(s).to_string().trim().to_string())));
            quote_event(out, s, "value", "toml_value_display", g(&|| Some(toml::Value::String(s.to_string()).to_string())));
            writeln!(w, "{}", json!({"ev": "quote", "id": "quote", "s": cps(s), "q": qs})).unwrap();
            return;
        }
    };
    quote_event(out, s, "value", "literal", g(&|| sb.as_literal().map(|k| k.to_toml_value())));
    quote_event(out, s, "value", "ml_literal", g(&|| sb.as_ml_literal().map(|k| k.to_toml_value())));
    quote_event(out, s, "value", "basic_pretty", g(&|| sb.as_basic_pretty().map(|k| k.to_toml_value())));
    quote_event(out, s, "value", "ml_basic_pretty", g(&|| sb.as_ml_basic_pretty().map(|k| k.to_toml_value())));
    quote_event(out, s, "value", "basic", g(&|| Some(sb.as_basic().to_toml_value())));
    quote_event(out, s, "value", "ml_basic", g(&|| Some(sb.as_ml_basic().to_toml_value())));
    quote_event(out, s, "value", "default", g(&|| Some(sb.as_default().to_toml_value())));
    quote_event(out, s, "value", "str_to_toml_value", g(&|| Some(s.to_string().to_toml_value())));
    quote_event(out, s, "value", "edit_value_display", g(&|| Some(toml_edit::Value::from(s).to_string().trim().to_string())));
    quote_event(out, s, "value", "toml_value_display", g(&|| Some(toml::Value::String(s.to_string()).to_string())));
    writeln!(w, "{}", json!({"ev": "quote", "id": "quote", "s": cps(s), "q": qs})).unwrap();
}

/// --maxlen L --seed S --random N : all strings up to length L over the 14-class alphabet + random long strings
pub fn quote_events(args: &Args) {
    let maxlen = args.num("maxlen", 3) as usize;
    let nrand = args.num("random", 0);
    let mut rng = StdRng::seed_from_u64(args.num("seed", 1));
    let mut out = out_writer(args);
    // --first F : only the strings whose first symbol is QALPHA[F] (slices of the exhaustive level, so that
    // length 6 fits on disk one slice at a time)
    let first = args.get("first").map(|x| x.parse::<usize>().expect("first"));
    let mut cur: Vec<String> = match first {
        Some(f) => {
            let s0 = QALPHA[f].to_string();
            quote_all(&mut out, &s0);
            vec![s0]
        }
        None => {
            quote_all(&mut out, "");
            vec![String::new()]
        }
    };
    for _ in 0..(if first.is_some() { maxlen - 1 } else { maxlen }) {
        let mut next = Vec::with_capacity(cur.len() * QALPHA.len());
        for s in &cur {
            for c in QALPHA {
                let mut t = s.clone();
                t.push(*c);
                quote_all(&mut out, &t);
                next.push(t);
            }
        }
        cur = next;
    }
    // the writers match per byte: every ASCII byte is potentially a class of its own
    if first.is_none() {
        for b in 0u8..128 {
            let c = b as char;
            for s in [format!("{c}"), format!("a{c}a"), format!("{c}\""), format!("{c}'"), format!("{c}\n")] {
                quote_all(&mut out, &s);
            }
        }
    }
    // long runs of one quote character, around the capacity of a byte-sized counter
    if first.is_none() {
        for q in ['\'', '"'] {
            for n in [3usize, 254, 255, 256, 257, 300, 600] {
                let run: String = std::iter::repeat(q).take(n).collect();
                quote_all(&mut out, &run);
                quote_all(&mut out, &format!("a{run}b"));
            }
        }
    }
    for _ in 0..nrand {
        let len = rng.gen_range(5..40);
        let mut s = String::new();
        while s.chars().count() < len {
            if rng.gen_range(0..3) == 0 {
                let q = if rng.gen() { '"' } else { '\'' };
                for _ in 0..rng.gen_range(1..5) {
                    s.push(q);
                }
            } else {
                s.push(QALPHA[rng.gen_range(0..QALPHA.len())]);
            }
        }
        quote_all(&mut out, &s);
    }
}

// ---------------------------------------------------------------------------------------------
// serde integer conversions (C11 c)
#[derive(serde::Serialize, serde::Deserialize)]
struct Wk<T> {
    k: T,
}

fn digits_j(neg: bool, mag: u128) -> J {
    let d: Vec<u32> = mag.to_string().bytes().map(|b| (b - b'0') as u32).collect();
    json!({"k": "i", "neg": neg && mag != 0, "d": d})
}

fn sint_out<T>(out: &mut dyn Write, ty: &str, v: T, lit: J)
where
    T: serde::Serialize + Copy + serde::de::IntoDeserializer<'static, serde::de::value::Error> + 'static,
{
    let routes: [(&str, Box<dyn Fn() -> Result<String, String>>); 5] = [
        // a toml::Value built from a foreign serde source (the visitor's visit_u64 / visit_i64 / ...)
        ("toml::Value::deserialize", Box::new(move || {
            <toml::Value as serde::Deserialize>::deserialize(v.into_deserializer()).map(|x| x.to_string()).map_err(|e| e.to_string())
        })),
        ("toml::to_string", Box::new(move || toml::to_string(&Wk { k: v }).map_err(|e| e.to_string()))),
        ("toml_edit::ser::to_string", Box::new(move || toml_edit::ser::to_string(&Wk { k: v }).map_err(|e| e.to_string()))),
        ("toml::Value::try_from", Box::new(move || toml::Value::try_from(Wk { k: v }).map(|x| x.to_string()).map_err(|e| e.to_string()))),
        ("toml::to_string_pretty", Box::new(move || toml::to_string_pretty(&Wk { k: v }).map_err(|e| e.to_string()))),
    ];
    for (route, f) in routes.iter() {
        let (res, text) = match catch_unwind(AssertUnwindSafe(|| f())) {
            Ok(Ok(s)) => ("ok", s),
            Ok(Err(_)) => ("err", String::new()),
            Err(_) => ("panic", String::new()),
        };
        writeln!(out, "{}", json!({"ev": "sint", "id": format!("out/{ty}/{route}"), "dir": "out", "ty": ty, "route": route,
                                   "lit": lit, "res": res, "text": cps(&text)})).unwrap();
    }
}

fn sint_in<T: serde::de::DeserializeOwned + Into<i128> + Copy>(out: &mut dyn Write, ty: &str, lit_text: &str, lit: &J) {
    let src = format!("k = {lit_text}\n");
    let routes: [(&str, Box<dyn Fn(&str) -> Result<T, String>>); 3] = [
        ("toml::from_str", Box::new(|s: &str| toml::from_str::<Wk<T>>(s).map(|w| w.k).map_err(|e| e.to_string()))),
        ("toml_edit::de::from_str", Box::new(|s: &str| toml_edit::de::from_str::<Wk<T>>(s).map(|w| w.k).map_err(|e| e.to_string()))),
        ("Value::try_into", Box::new(|s: &str| {
            let v: toml::Value = toml::from_str(s).map_err(|e| e.to_string())?;
            v.try_into::<Wk<T>>().map(|w| w.k).map_err(|e| e.to_string())
        })),
    ];
    for (route, f) in routes.iter() {
        let (res, val) = match catch_unwind(AssertUnwindSafe(|| f(&src))) {
            Ok(Ok(v)) => {
                let x: i128 = v.into();
                ("ok", digits_j(x < 0, x.unsigned_abs()))
            }
            Ok(Err(_)) => ("err", proj::dummy()),
            Err(_) => ("panic", proj::dummy()),
        };
        writeln!(out, "{}", json!({"ev": "sint", "id": format!("in/{ty}/{route}"), "dir": "in", "ty": ty, "route": route,
                                   "lit": lit, "res": res, "val": val, "text": cps(&src)})).unwrap();
    }
}

pub fn serdeint_events(args: &Args) {
    let mut out = out_writer(args);
    // output direction: values of wide types around the i64 range
    let u64s: [u64; 8] = [0, 1, i64::MAX as u64 - 1, i64::MAX as u64, i64::MAX as u64 + 1, u64::MAX - 1, u64::MAX, 1 << 63];
    for v in u64s {
        sint_out(&mut out, "u64", v, digits_j(false, v as u128));
    }
    let i128s: [i128; 10] = [0, -1, i64::MAX as i128, i64::MAX as i128 + 1, i64::MIN as i128, i64::MIN as i128 - 1, i128::MAX, i128::MIN, u64::MAX as i128, -(u64::MAX as i128)];
    for v in i128s {
        sint_out(&mut out, "i128", v, digits_j(v < 0, v.unsigned_abs()));
    }
    let u128s: [u128; 6] = [0, i64::MAX as u128, i64::MAX as u128 + 1, u64::MAX as u128, u64::MAX as u128 + 1, u128::MAX];
    for v in u128s {
        sint_out(&mut out, "u128", v, digits_j(false, v));
    }
    for v in [i64::MIN, -1, 0, 1, i64::MAX] {
        sint_out(&mut out, "i64", v, digits_j(v < 0, (v as i128).unsigned_abs()));
    }
    for v in [0u32, 1, u32::MAX] {
        sint_out(&mut out, "u32", v, digits_j(false, v as u128));
    }
    for v in [i8::MIN, -1, 0, i8::MAX] {
        sint_out(&mut out, "i8", v, digits_j(v < 0, (v as i128).unsigned_abs()));
    }
    // input direction: literals around the edges of every narrower type
    let mut lits: Vec<i128> = vec![0, 1, -1];
    for bits in [7u32, 8, 15, 16, 31, 32, 63] {
        let p = 1i128 << bits;
        lits.extend_from_slice(&[p - 2, p - 1, p, p + 1, -p + 1, -p, -p - 1]);
    }
    lits.retain(|x| *x >= i64::MIN as i128 && *x <= i64::MAX as i128);
    lits.sort();
    lits.dedup();
    for l in lits {
        let text = l.to_string();
        let lit = digits_j(l < 0, l.unsigned_abs());
        sint_in::<i8>(&mut out, "i8", &text, &lit);
        sint_in::<u8>(&mut out, "u8", &text, &lit);
        sint_in::<i16>(&mut out, "i16", &text, &lit);
        sint_in::<u16>(&mut out, "u16", &text, &lit);
        sint_in::<i32>(&mut out, "i32", &text, &lit);
        sint_in::<u32>(&mut out, "u32", &text, &lit);
        sint_in::<i64>(&mut out, "i64", &text, &lit);
        sint_in::<u64>(&mut out, "u64", &text, &lit);
    }
}
