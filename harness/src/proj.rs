//! Projections (abstraction functions) from API-visible state to the JSON value domain of
//! the specification (DESIGN.md 3.2).  No case analysis beyond the shape of the public types.
use serde_json::{json, Value as J};

pub fn cps(s: &str) -> J {
    J::Array(s.chars().map(|c| J::from(c as u32)).collect())
}

pub fn from_cps(v: &J) -> String {
    v.as_array()
        .map(|a| {
            a.iter()
                .map(|x| char::from_u32(x.as_u64().unwrap_or(0xFFFD) as u32).unwrap_or('\u{FFFD}'))
                .collect()
        })
        .unwrap_or_default()
}

pub fn str_j(s: &str) -> J {
    json!({"k": "s", "v": cps(s)})
}

pub fn int_j(i: i64) -> J {
    let neg = i < 0;
    let a = (i as i128).unsigned_abs();
    let d: Vec<J> = a.to_string().bytes().map(|b| J::from((b - b'0') as u32)).collect();
    json!({"k": "i", "neg": neg, "d": d})
}

/// Normal form of a double: class, sign, shortest round-trip digits, decimal exponent of the
/// leading digit.  Trusted base: Rust's `{:e}` formatting of f64.
pub fn float_j(f: f64) -> J {
    let neg = f.is_sign_negative();
    if f.is_nan() {
        return json!({"k": "f", "c": "nan", "neg": neg, "d": [], "e": 0});
    }
    if f.is_infinite() {
        return json!({"k": "f", "c": "inf", "neg": neg, "d": [], "e": 0});
    }
    if f == 0.0 {
        return json!({"k": "f", "c": "zero", "neg": neg, "d": [], "e": 0});
    }
    let s = format!("{:e}", f.abs());
    let (m, e) = s.split_once('e').expect("exponent");
    let mut d: Vec<u32> = m.bytes().filter(|b| b.is_ascii_digit()).map(|b| (b - b'0') as u32).collect();
    while d.len() > 1 && *d.last().unwrap() == 0 {
        d.pop();
    }
    let e: i32 = e.parse().expect("exp int");
    json!({"k": "f", "c": "fin", "neg": neg, "d": d, "e": e})
}

/// Normal form of an f32 (its own shortest round-trip digits).
pub fn float32_j(f: f32) -> J {
    let neg = f.is_sign_negative();
    if f.is_nan() || f.is_infinite() || f == 0.0 {
        return float_j(f as f64);
    }
    let s = format!("{:e}", f.abs());
    let (m, e) = s.split_once('e').expect("exponent");
    let mut d: Vec<u32> = m.bytes().filter(|b| b.is_ascii_digit()).map(|b| (b - b'0') as u32).collect();
    while d.len() > 1 && *d.last().unwrap() == 0 {
        d.pop();
    }
    let e: i32 = e.parse().expect("exp int");
    json!({"k": "f", "c": "fin", "neg": neg, "d": d, "e": e})
}

pub fn bool_j(b: bool) -> J {
    json!({"k": "b", "v": b})
}

pub fn dt_j(dt: &toml_datetime::Datetime) -> J {
    let date = match &dt.date {
        Some(d) => json!([d.year, d.month, d.day]),
        None => json!([]),
    };
    let time = match &dt.time {
        Some(t) => json!([t.hour, t.minute, t.second, t.nanosecond]),
        None => json!([]),
    };
    let off = match &dt.offset {
        None => json!({"t": "N", "m": 0}),
        Some(toml_datetime::Offset::Z) => json!({"t": "Z", "m": 0}),
        Some(toml_datetime::Offset::Custom { minutes }) => json!({"t": "O", "m": minutes}),
    };
    json!({"k": "dt", "date": date, "time": time, "off": off})
}

/// The text that `Datetime`'s `Serialize` hands to a serializer (its Display form), read by the harness itself:
/// `Datetime::from_str` is code under test and must not decide what a captured value is.
pub fn dt_from_display(s: &str) -> Option<J> {
    let b = s.as_bytes();
    let num = |r: std::ops::Range<usize>| -> Option<u32> { s.get(r)?.parse::<u32>().ok() };
    let mut i = 0;
    let mut date = json!([]);
    let mut time = json!([]);
    let mut off = json!({"t": "N", "m": 0});
    if b.len() >= 10 && b[4] == b'-' && b[7] == b'-' {
        date = json!([num(0..4)?, num(5..7)?, num(8..10)?]);
        i = 10;
        if i < b.len() {
            if b[i] == b'T' || b[i] == b't' || b[i] == b' ' {
                i += 1;
            } else {
                return None;
            }
        }
    }
    if i < b.len() {
        if b.len() < i + 8 || b[i + 2] != b':' || b[i + 5] != b':' {
            return None;
        }
        let (h, m, sec) = (num(i..i + 2)?, num(i + 3..i + 5)?, num(i + 6..i + 8)?);
        i += 8;
        let mut ns: u64 = 0;
        if i < b.len() && b[i] == b'.' {
            i += 1;
            let st = i;
            while i < b.len() && b[i].is_ascii_digit() {
                if i - st < 9 {
                    ns = ns * 10 + (b[i] - b'0') as u64;
                }
                i += 1;
            }
            if i == st {
                return None;
            }
            for _ in (i - st).min(9)..9 {
                ns *= 10;
            }
        }
        time = json!([h, m, sec, ns]);
        if i < b.len() {
            if b[i] == b'Z' || b[i] == b'z' {
                off = json!({"t": "Z", "m": 0});
                i += 1;
            } else if b[i] == b'+' || b[i] == b'-' {
                if b.len() < i + 6 || b[i + 3] != b':' {
                    return None;
                }
                let mins = (num(i + 1..i + 3)? * 60 + num(i + 4..i + 6)?) as i64;
                off = json!({"t": "O", "m": if b[i] == b'-' { -mins } else { mins }});
                i += 6;
            }
        }
    }
    if i != b.len() || (date == json!([]) && time == json!([])) {
        return None;
    }
    Some(json!({"k": "dt", "date": date, "time": time, "off": off}))
}

fn span_j(sp: Option<std::ops::Range<usize>>) -> J {
    match sp {
        Some(r) => json!([r.start, r.end]),
        None => json!([]),
    }
}

/// toml_edit value -> abstract value.  `spans`: also record byte spans (C14).
pub fn edit_value(v: &toml_edit::Value, spans: bool) -> J {
    use toml_edit::Value as V;
    let mut j = match v {
        V::String(s) => str_j(s.value()),
        V::Integer(i) => int_j(*i.value()),
        V::Float(f) => float_j(*f.value()),
        V::Boolean(b) => bool_j(*b.value()),
        V::Datetime(d) => dt_j(d.value()),
        V::Array(a) => {
            let items: Vec<J> = a.iter().map(|x| edit_value(x, spans)).collect();
            json!({"k": "a", "v": items})
        }
        V::InlineTable(t) => {
            let mut es = Vec::new();
            for (k, val) in t.iter() {
                let mut e = json!({"key": cps(k), "val": edit_value(val, spans)});
                if spans {
                    let ks = t.get_key_value(k).map(|(key, _)| key.span()).unwrap_or(None);
                    e["ksp"] = span_j(ks);
                }
                es.push(e);
            }
            json!({"k": "t", "v": es})
        }
    };
    if spans {
        j["sp"] = span_j(v.span());
    }
    j
}

pub fn edit_table(t: &toml_edit::Table, spans: bool) -> J {
    let mut es = Vec::new();
    for (k, item) in t.iter() {
        let mut e = json!({"key": cps(k), "val": edit_item(item, spans)});
        if spans {
            let ks = t.get_key_value(k).map(|(key, _)| key.span()).unwrap_or(None);
            e["ksp"] = span_j(ks);
        }
        es.push(e);
    }
    let mut j = json!({"k": "t", "v": es});
    if spans {
        j["sp"] = span_j(t.span());
    }
    j
}

pub fn edit_item(item: &toml_edit::Item, spans: bool) -> J {
    use toml_edit::Item as I;
    match item {
        I::None => json!({"k": "none"}),
        I::Value(v) => edit_value(v, spans),
        I::Table(t) => edit_table(t, spans),
        I::ArrayOfTables(a) => {
            let items: Vec<J> = a.iter().map(|t| edit_table(t, spans)).collect();
            let mut j = json!({"k": "a", "v": items});
            if spans {
                j["sp"] = span_j(a.span());
            }
            j
        }
    }
}

/// toml::Value -> abstract value
pub fn toml_value(v: &toml::Value) -> J {
    use toml::Value as V;
    match v {
        V::String(s) => str_j(s),
        V::Integer(i) => int_j(*i),
        V::Float(f) => float_j(*f),
        V::Boolean(b) => bool_j(*b),
        V::Datetime(d) => dt_j(d),
        V::Array(a) => {
            let items: Vec<J> = a.iter().map(toml_value).collect();
            json!({"k": "a", "v": items})
        }
        V::Table(t) => toml_table(t),
    }
}

pub fn toml_table(t: &toml::Table) -> J {
    let es: Vec<J> = t.iter().map(|(k, v)| json!({"key": cps(k), "val": toml_value(v)})).collect();
    json!({"k": "t", "v": es})
}

pub fn dummy() -> J {
    json!({"k": "b", "v": false})
}
