//! Capturing serializer: any `Serialize` value -> its shape in the serde data model (SDM) as JSON, which is what
//! the specification's `Encode` operator (SerdeModel.tla) takes as input.  No TOML knowledge in here.
use crate::proj::{self, cps};
use serde::ser::{self, Serialize};
use serde_json::{json, Value as J};

#[derive(Debug)]
pub struct CapErr(String);
impl std::fmt::Display for CapErr {
    fn fmt(&self, f: &mut std::fmt::Formatter<'_>) -> std::fmt::Result {
        write!(f, "{}", self.0)
    }
}
impl std::error::Error for CapErr {}
impl ser::Error for CapErr {
    fn custom<T: std::fmt::Display>(msg: T) -> Self {
        CapErr(msg.to_string())
    }
}

pub fn capture<T: Serialize + ?Sized>(v: &T) -> J {
    v.serialize(Cap).unwrap_or_else(|e| json!({"k": "capture-error", "v": e.to_string()}))
}

fn int(w: &str, neg: bool, mag: u128) -> J {
    let d: Vec<u32> = mag.to_string().bytes().map(|b| (b - b'0') as u32).collect();
    json!({"k": "int", "w": w, "neg": neg && mag != 0, "d": d})
}

pub struct Cap;
pub struct CapSeq {
    kind: &'static str,
    var: Option<&'static str>,
    items: Vec<J>,
}
pub struct CapMap {
    kind: &'static str,
    name: &'static str,
    var: Option<&'static str>,
    entries: Vec<J>,
    key: Option<J>,
}

impl ser::Serializer for Cap {
    type Ok = J;
    type Error = CapErr;
    type SerializeSeq = CapSeq;
    type SerializeTuple = CapSeq;
    type SerializeTupleStruct = CapSeq;
    type SerializeTupleVariant = CapSeq;
    type SerializeMap = CapMap;
    type SerializeStruct = CapMap;
    type SerializeStructVariant = CapMap;

    fn serialize_bool(self, v: bool) -> Result<J, CapErr> {
        Ok(json!({"k": "bool", "v": v}))
    }
    fn serialize_i8(self, v: i8) -> Result<J, CapErr> {
        Ok(int("i8", v < 0, (v as i128).unsigned_abs()))
    }
    fn serialize_i16(self, v: i16) -> Result<J, CapErr> {
        Ok(int("i16", v < 0, (v as i128).unsigned_abs()))
    }
    fn serialize_i32(self, v: i32) -> Result<J, CapErr> {
        Ok(int("i32", v < 0, (v as i128).unsigned_abs()))
    }
    fn serialize_i64(self, v: i64) -> Result<J, CapErr> {
        Ok(int("i64", v < 0, (v as i128).unsigned_abs()))
    }
    fn serialize_i128(self, v: i128) -> Result<J, CapErr> {
        Ok(int("i128", v < 0, v.unsigned_abs()))
    }
    fn serialize_u8(self, v: u8) -> Result<J, CapErr> {
        Ok(int("u8", false, v as u128))
    }
    fn serialize_u16(self, v: u16) -> Result<J, CapErr> {
        Ok(int("u16", false, v as u128))
    }
    fn serialize_u32(self, v: u32) -> Result<J, CapErr> {
        Ok(int("u32", false, v as u128))
    }
    fn serialize_u64(self, v: u64) -> Result<J, CapErr> {
        Ok(int("u64", false, v as u128))
    }
    fn serialize_u128(self, v: u128) -> Result<J, CapErr> {
        Ok(int("u128", false, v))
    }
    fn serialize_f32(self, v: f32) -> Result<J, CapErr> {
        Ok(json!({"k": "float", "w": "f32", "f": proj::float_j(v as f64)}))
    }
    fn serialize_f64(self, v: f64) -> Result<J, CapErr> {
        Ok(json!({"k": "float", "w": "f64", "f": proj::float_j(v)}))
    }
    fn serialize_char(self, v: char) -> Result<J, CapErr> {
        Ok(json!({"k": "str", "v": [v as u32]}))
    }
    fn serialize_str(self, v: &str) -> Result<J, CapErr> {
        Ok(json!({"k": "str", "v": cps(v)}))
    }
    fn serialize_bytes(self, v: &[u8]) -> Result<J, CapErr> {
        Ok(json!({"k": "bytes", "v": v}))
    }
    fn serialize_none(self) -> Result<J, CapErr> {
        Ok(json!({"k": "none"}))
    }
    fn serialize_some<T: ?Sized + Serialize>(self, v: &T) -> Result<J, CapErr> {
        Ok(json!({"k": "some", "v": v.serialize(Cap)?}))
    }
    fn serialize_unit(self) -> Result<J, CapErr> {
        Ok(json!({"k": "unit"}))
    }
    fn serialize_unit_struct(self, _n: &'static str) -> Result<J, CapErr> {
        Ok(json!({"k": "unit"}))
    }
    fn serialize_unit_variant(self, _n: &'static str, _i: u32, var: &'static str) -> Result<J, CapErr> {
        Ok(json!({"k": "uvar", "var": cps(var)}))
    }
    fn serialize_newtype_struct<T: ?Sized + Serialize>(self, _n: &'static str, v: &T) -> Result<J, CapErr> {
        Ok(json!({"k": "newtype", "v": v.serialize(Cap)?}))
    }
    fn serialize_newtype_variant<T: ?Sized + Serialize>(self, _n: &'static str, _i: u32, var: &'static str, v: &T) -> Result<J, CapErr> {
        Ok(json!({"k": "nvar", "var": cps(var), "v": v.serialize(Cap)?}))
    }
    fn serialize_seq(self, _len: Option<usize>) -> Result<CapSeq, CapErr> {
        Ok(CapSeq { kind: "seq", var: None, items: vec![] })
    }
    fn serialize_tuple(self, _len: usize) -> Result<CapSeq, CapErr> {
        Ok(CapSeq { kind: "tuple", var: None, items: vec![] })
    }
    fn serialize_tuple_struct(self, _n: &'static str, _len: usize) -> Result<CapSeq, CapErr> {
        Ok(CapSeq { kind: "tuple", var: None, items: vec![] })
    }
    fn serialize_tuple_variant(self, _n: &'static str, _i: u32, var: &'static str, _len: usize) -> Result<CapSeq, CapErr> {
        Ok(CapSeq { kind: "tvar", var: Some(var), items: vec![] })
    }
    fn serialize_map(self, _len: Option<usize>) -> Result<CapMap, CapErr> {
        Ok(CapMap { kind: "map", name: "", var: None, entries: vec![], key: None })
    }
    fn serialize_struct(self, name: &'static str, _len: usize) -> Result<CapMap, CapErr> {
        Ok(CapMap { kind: "struct", name, var: None, entries: vec![], key: None })
    }
    fn serialize_struct_variant(self, _n: &'static str, _i: u32, var: &'static str, _len: usize) -> Result<CapMap, CapErr> {
        Ok(CapMap { kind: "svar", name: "", var: Some(var), entries: vec![], key: None })
    }
}

impl CapSeq {
    fn fin(self) -> J {
        match self.var {
            Some(v) => json!({"k": self.kind, "var": cps(v), "v": self.items}),
            None => json!({"k": self.kind, "v": self.items}),
        }
    }
}
impl ser::SerializeSeq for CapSeq {
    type Ok = J;
    type Error = CapErr;
    fn serialize_element<T: ?Sized + Serialize>(&mut self, v: &T) -> Result<(), CapErr> {
        self.items.push(v.serialize(Cap)?);
        Ok(())
    }
    fn end(self) -> Result<J, CapErr> {
        Ok(self.fin())
    }
}
impl ser::SerializeTuple for CapSeq {
    type Ok = J;
    type Error = CapErr;
    fn serialize_element<T: ?Sized + Serialize>(&mut self, v: &T) -> Result<(), CapErr> {
        self.items.push(v.serialize(Cap)?);
        Ok(())
    }
    fn end(self) -> Result<J, CapErr> {
        Ok(self.fin())
    }
}
impl ser::SerializeTupleStruct for CapSeq {
    type Ok = J;
    type Error = CapErr;
    fn serialize_field<T: ?Sized + Serialize>(&mut self, v: &T) -> Result<(), CapErr> {
        self.items.push(v.serialize(Cap)?);
        Ok(())
    }
    fn end(self) -> Result<J, CapErr> {
        Ok(self.fin())
    }
}
impl ser::SerializeTupleVariant for CapSeq {
    type Ok = J;
    type Error = CapErr;
    fn serialize_field<T: ?Sized + Serialize>(&mut self, v: &T) -> Result<(), CapErr> {
        self.items.push(v.serialize(Cap)?);
        Ok(())
    }
    fn end(self) -> Result<J, CapErr> {
        Ok(self.fin())
    }
}

impl CapMap {
    fn fin(self) -> J {
        // the date-time types serialize as a one-field struct with a private name: capture them as date-times
        if self.kind == "struct" && self.name == toml_datetime::__unstable::NAME {
            if let Some(e) = self.entries.first() {
                let s = proj::from_cps(&e["val"]["v"]);
                // read by the harness's own reader of the Display form: from_str is code under test
                if let Some(j) = proj::dt_from_display(&s) {
                    return json!({"k": "dt", "v": j});
                }
            }
        }
        match self.var {
            Some(v) => json!({"k": self.kind, "var": cps(v), "v": self.entries}),
            None => json!({"k": self.kind, "v": self.entries}),
        }
    }
}
impl ser::SerializeMap for CapMap {
    type Ok = J;
    type Error = CapErr;
    fn serialize_key<T: ?Sized + Serialize>(&mut self, k: &T) -> Result<(), CapErr> {
        self.key = Some(k.serialize(Cap)?);
        Ok(())
    }
    fn serialize_value<T: ?Sized + Serialize>(&mut self, v: &T) -> Result<(), CapErr> {
        let k = self.key.take().unwrap_or(json!({"k": "unit"}));
        self.entries.push(json!({"key": k, "val": v.serialize(Cap)?}));
        Ok(())
    }
    fn end(self) -> Result<J, CapErr> {
        Ok(self.fin())
    }
}
impl ser::SerializeStruct for CapMap {
    type Ok = J;
    type Error = CapErr;
    fn serialize_field<T: ?Sized + Serialize>(&mut self, k: &'static str, v: &T) -> Result<(), CapErr> {
        self.entries.push(json!({"key": {"k": "str", "v": cps(k)}, "val": v.serialize(Cap)?}));
        Ok(())
    }
    fn end(self) -> Result<J, CapErr> {
        Ok(self.fin())
    }
}
impl ser::SerializeStructVariant for CapMap {
    type Ok = J;
    type Error = CapErr;
    fn serialize_field<T: ?Sized + Serialize>(&mut self, k: &'static str, v: &T) -> Result<(), CapErr> {
        self.entries.push(json!({"key": {"k": "str", "v": cps(k)}, "val": v.serialize(Cap)?}));
        Ok(())
    }
    fn end(self) -> Result<J, CapErr> {
        Ok(self.fin())
    }
}
