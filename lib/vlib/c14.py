from . import parsecheck

RULE = ("texts = corpus + MCTomlGen texts (multi-byte characters, BOM, CRLF, decor around every token, nested containers, "
        "dotted keys, headers) + TomlDoc behaviours; ImDocument spans of every key, value, table and array of tables are "
        "compared by TLC with the token spans of TomlLex (byte offsets via the UTF-8 prefix table): equality for values, "
        "re-parse of the slice for keys and values, bounds / character boundaries / containment for tables; Spanned<T> through "
        "serde for ten target types (same verdict and value as T, same ranges); no span after into_mut / DocumentMut. "
        "distinct_nontrivial = distinct texts of >= 3 code points")
WANT = {"span-spanned-spanless-table", "span-docmut-verdict", "span-docmut-value", "span-panic", "span-tree", "span-stale", "span-spanned-verdict", "span-spanned-value", "span-spanned-range",
        # error locations delivered through serde are spans too (shared with C15)
        "err-type-location"}


def run(ctx):
    parsecheck.run_parse(ctx, {"corpus", "gen", "spandocs", "doc"}, WANT, subcmd="span-events")
    return ctx.finish("model_checking", RULE)


def replay(ctx, path):
    return parsecheck.replay_parse(ctx, path, WANT, subcmd="span-events")
