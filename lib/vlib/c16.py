import os, json
from . import core
from .core import log

RULE = ("every history of <= 3 mutating calls (maps; 4 for sequences; the thorough tier adds a sampled level 4 / 5; plus every history of <= 2 (thorough 3) calls after a three-call setup that leaves entries out of key order around a placeholder) over keys {a,b,c} on toml_edit::Table, InlineTable, "
        "their TableLike views, Array, ArrayOfTables and toml::Map in both its sorted and insertion-ordered builds, enumerated "
        "by TLC on the Containers state machine (ordered-map laws checked as invariants and action properties); each history is "
        "replayed through the real API recording every return value and the full observation (len, is_empty, iteration, get and "
        "contains_key of every key, keys in the printed output) after every call; TLC validates each recorded history against "
        "the step relations (set simulation where the contract is nondeterministic); plus seeded random histories of length 30. "
        "distinct_nontrivial = distinct (container kind, history) pairs with at least one mutating call")
CFG = """SPECIFICATION Spec
CONSTANTS
  SETUP = %d
  KIND = "%s"
  MaxN = %d
  Keys = {"a", "b", "c"}
  EMIT = TRUE
  SAMPLE = %d
INVARIANT Laws
INVARIANT Emit
PROPERTY RemovalKeepsOrder
PROPERTY InsertKeepsPosition
PROPERTY ReadsArePure
CHECK_DEADLOCK FALSE
"""
KINDS = ["table", "inline", "tablelike_table", "tablelike_inline", "array", "aot", "map_insertion", "map_sorted"]


def known_for(ctx, m):
    for ent in ctx.known["findings"]:
        if ent.get("status") != "known" or "C16" not in ent.get("properties", []):
            continue
        rule = ent.get("match", {})
        if rule.get("kind") == "hist":
            ev = m["event"]
            step = m["detail"]["step"]
            ops = ev["ops"]
            if ev["kind"] in rule["kinds"] and m["what"] == rule["what"] and ops[step - 1]["op"] in rule["ops"]:
                k = ops[step - 1]["k"]
                # the call hits a key for which a placeholder was created earlier by mutable indexing / a vacant entry
                if not rule.get("needs_placeholder") or any(o["op"] in rule["placeholder_ops"] and o["k"] == k for o in ops[:step - 1]):
                    return ent["id"]
    return None


def gen_histories(ctx, kind, maxn, sample=1, setup=0):
    hs = {}
    def on(o):
        hs[json.dumps(o["ops"], sort_keys=True)] = o
    r = ctx.tlc("MCContainers", CFG % (setup, kind, maxn, sample), tag="cont-%s-n%d-s%d" % (kind, maxn, setup), workers=6, timeout=7200, on_json=on)
    log("MCContainers %s: %d distinct states, %d distinct histories, %.1fs" % (kind, r.distinct, len(hs), r.wall))
    ctx.extra.setdefault("container_models", []).append({"kind": kind, "MaxN": maxn, "distinct_states": r.distinct, "histories": len(hs)})
    return list(hs.values())


def run(ctx):
    builds = {"po": ctx.build(features=("preserve_order",)), "plain": ctx.build(features=())}
    for kind in KINDS:
        seqk = kind in ("array", "aot")
        hists = gen_histories(ctx, kind, 4 if seqk else 3)
        # every history of <= 2 (thorough 3) further calls on a container prepared by three calls (entries out of key
        # order, a placeholder between two of them where the kind has placeholders)
        hists += gen_histories(ctx, kind, 3 + (2 if ctx.quick else 3), 1, setup=1)
        if not ctx.quick:
            # one level deeper, one in SAMPLE of the last operations (the full level has millions of histories)
            hists += gen_histories(ctx, kind, 5 if seqk else 4, 7 if seqk else 23)
        h = builds["plain"] if kind == "map_sorted" else builds["po"]
        hp = ctx.path("hist-%s.ndjson" % kind)
        core.write_ndjson(hp, hists)
        # random long histories (direction V)
        rp = ctx.path("rand-%s.ndjson" % kind)
        ctx.harness(h, ["gen-hist", "--kinds", kind, "--n", 300 if ctx.quick else 3000, "--len", 30, "--seed", ctx.seed, "--out", rp])
        with open(hp, "a") as f:
            f.write(open(rp).read())
        evp = ctx.path("hist-%s.ev" % kind)
        ctx.harness(h, ["hist-events", "--in", hp, "--out", evp])
        mism, _, n = ctx.validate(evp, chunk=10000, jvms=5, workers=3)
        for e in core.iter_ndjson(evp):
            if e["ops"]:
                ctx.nontrivial.add((kind, json.dumps([[o["op"], o["k"], o["v"], o["i"], o["ks"], o["vs"]] for o in e["ops"]])))
        if len(ctx.samples) < 8:
            e = core.read_ndjson(evp)[min(777, n - 1)]
            ctx.sample({"kind": kind, "calls": [[o["op"], o["k"], o["v"], "->", o["ret"], o["obs"]["iter"]] for o in e["ops"]]})
        log("%s: %d histories validated, %d mismatches" % (kind, n, len(mism)))
        import collections
        cls = collections.Counter((m["what"], m["detail"]["op"], any(o["op"] in ("index_mut",) for o in m["event"]["ops"][:m["detail"]["step"]])) for m in mism)
        if cls:
            log("   classes (what, op, after index_mut): %s" % dict(cls))
        for m in mism:
            ev = m["event"]
            d = m["detail"]
            calls = " ; ".join("%s(%s%s)" % (o["op"], o["k"], "," + str(o["v"]) if o["v"] else "") for o in ev["ops"][:d["step"]])
            ctx.report("%s %s step %d: %s" % (m["what"], ev["kind"], d["step"], calls),
                       {"kind": "hist", "event": {"kind": ev["kind"], "ops": [{k: o[k] for k in ("op", "k", "v", "k2", "ks", "i", "vs", "v2")} for o in ev["ops"]]},
                        "what": m["what"], "detail": d, "recorded": ev["ops"][d["step"] - 1]}, known_for(ctx, m))
        os.remove(evp)
    ctx.evaluations = ctx.validated
    return ctx.finish("model_checking", RULE, exhaustive=True)


def replay(ctx, path):
    rp = json.load(open(path))
    kind = rp["event"]["kind"]
    h = ctx.build(features=() if kind == "map_sorted" else ("preserve_order",))
    hp = ctx.path("replay.ndjson")
    core.write_ndjson(hp, [rp["event"]])
    evp = ctx.path("replay.ev")
    ctx.harness(h, ["hist-events", "--in", hp, "--out", evp])
    mism, _, _ = ctx.validate(evp)
    for m in mism:
        if not known_for(ctx, m):
            ctx.report("replayed", {"kind": "hist", "event": rp["event"], "what": m["what"], "detail": m["detail"]}, None)
    for pth, s in ctx.violations:
        print("VIOLATION property=%s replay=%s  # %s" % (ctx.prop, pth, s))
    return 1 if ctx.violations else 0
