import os, json, subprocess
from . import core, parsecheck
from .core import log

RULE = ("inputs = corpus (incl. the 10 non-UTF-8 files) + seeded corpus mutants + TLC-generated texts (every spelling, layouts, "
        "decor, single-symbol mutations and truncations) + TomlDoc behaviours + the date-time edge strings of MCDateGen (every field at and beyond its edge, 0-12 fraction digits) as document values + damaged UTF-8 encodings (truncated sequences, "
        "overlongs, surrogates, bytes >= 0xF5) + nesting patterns around the recursion limit + long runs of one character (255 / 256 / 300 / 70 000 quotes, blanks, digits, commas, ...); every input goes to every entry "
        "point (DocumentMut, ImDocument, Value, Item, Key, Key::parse, toml::from_str into Table/Value/a derived type, "
        "toml_edit::de::from_str/from_slice, both ValueDeserializers, Datetime::from_str) followed by to_string, Debug, clone, "
        "drop, into_mut, from_document, into_deserializer, try_into, error rendering; 10 s budget per call; build with debug assertions and overflow "
        "checks; TLC accepts an event only if every call returned within the budget. distinct_nontrivial = distinct inputs")


def run_entry(ctx, h, tag, path, budget_ms=10000, bytes_mod=10):
    """runs entry-events, resuming after a crash of the harness process (abort / stack overflow)"""
    evp = ctx.path(tag + ".api.ev")
    prog = ctx.path(tag + ".progress")
    start = 0
    crashes = []
    n = sum(1 for _ in open(path))
    part = 0
    parts = []
    while start < n:
        outp = "%s.part%d" % (evp, part)
        p = subprocess.run([h, "entry-events", "--in", path, "--out", outp, "--progress", prog, "--budget-ms", str(budget_ms),
                            "--start", str(start), "--bytes-mod", str(bytes_mod)], cwd=ctx.work, stdout=subprocess.PIPE, stderr=subprocess.PIPE, text=True)
        parts.append(outp)
        part += 1
        state = open(prog).read().strip() if os.path.exists(prog) else "0"
        if p.returncode == 0 and state == "done":
            break
        # crashed somewhere after the last complete record
        done = sum(1 for _ in open(outp)) if os.path.exists(outp) else 0
        bad_index = start + done
        recs = core.read_ndjson(path)
        crashes.append((bad_index, recs[bad_index] if bad_index < len(recs) else None, p.returncode))
        start = bad_index + 1
        if len(crashes) > 20:
            break
    with open(evp, "w") as f:
        for pth in parts:
            if os.path.exists(pth):
                for line in open(pth):
                    if line.endswith("\n"):
                        f.write(line)
                os.remove(pth)
    return evp, crashes


def run(ctx):
    h = ctx.build(features=("preserve_order",))
    ins = parsecheck.inputs(ctx, h, {"corpus", "mutants", "gen", "doc", "dates"})
    # nesting patterns around the recursion limit (Depth.tla), instantiated at the measured limit
    from . import c05
    r = ctx.tlc("Depth", c05.CFG % ("additive", "INVARIANT Bounded\nINVARIANT Emit"), tag="depth-additive", workers=4)
    # (a third of the two-layer patterns in both tiers: the texts are large, and C05 runs every pattern on a small stack)
    pats = [p for i, p in enumerate(r.json) if len(p["layers"]) < 2 or i % 3 == ctx.seed % 3]
    pp = ctx.path("patterns.ndjson")
    core.write_ndjson(pp, pats)
    dp = ctx.path("depth-texts.ndjson")
    ctx.harness(h, ["depth-render", "--in", pp, "--out", dp])
    ins.append(("depth-patterns", dp))
    # long runs of one character (counters and buffers sized in bytes): quotes inside the other kind of string,
    # blanks, digits, underscores, dots, brackets' worth of commas
    runs = []
    for n in (255, 256, 300, 70000):
        for name, text in (("apostrophes-in-basic", 'a = "%s"\n' % ("'" * n)), ("quotes-in-literal", "a = '%s'\n" % ('"' * n)),
                           ("apostrophes-in-ml-basic", 'a = \"\"\"%s\"\"\"\n' % ("'" * n)), ("blanks", "a =%s1\n" % (" " * n)),
                           ("digits", "a = %s\n" % ("1" * n)), ("fraction", "a = 1.%s\n" % ("1" * n)), ("fraction-digits-of-time", "a = 00:00:00.%s\n" % ("1" * n)),
                           ("key", "%s = 1\n" % ("k" * n)), ("commas", "a = [%s]\n" % ("1," * n)), ("comment", "#%s\n" % ("#" * n))):
            runs.append({"id": "run-%s-%d" % (name, n), "text": core.cps(text)})
    # single values with blanks around them (Value::from_str takes exactly one value) and multi-byte content
    for j, v in enumerate(('"\u00e9"', "'\u4e2d'", '["\u00e9", 1]', '{ k = "\u4e2d" }', '1979-05-27', '1.5', '"""\n\u00e9"""')):
        for a in ("", " ", "  ", "\t\t", "   "):
            for b in ("", " ", "\t"):
                if a or b:
                    runs.append({"id": "value-%d-%d-%d" % (j, len(a), len(b)), "text": core.cps(a + v + b)})
    rp = ctx.path("runs.ndjson")
    core.write_ndjson(rp, runs)
    ins.append(("runs", rp))
    calls = 0
    for tag, path in ins:
        evp, crashes = run_entry(ctx, h, tag, path, bytes_mod=10 if ctx.quick else 3)
        for idx, rec, rc in crashes:
            text = core.uncps(rec.get("text", [])) if rec else ""
            ctx.report("process died (rc=%s) on %s" % (rc, json.dumps(text)[:100]), {"kind": "api-crash", "event": rec, "rc": rc}, None)
        # TLC judges the recorded calls, not the text: long inputs are cut in its copy of the events
        mism, _, n = ctx.validate(evp, slim=lambda o: dict(o, text=o["text"][:200]) if len(o.get("text", [])) > 200 else o)
        for e in core.iter_ndjson(evp):
            calls += e["calls"]
            ctx.nontrivial.add(hash(tuple(e["text"])) if e["text"] else hash(e["id"]))
            if len(ctx.samples) < 5 and len(e["text"]) in range(5, 60) and len(ctx.nontrivial) % 499 == 1:
                ctx.sample({"input": core.uncps(e["text"]), "calls": e["calls"], "damaged_encodings": e["damaged"], "bad": e["bad"]})
        log("%s: %d inputs, %d mismatches, %d crashes" % (tag, n, len(mism), len(crashes)))
        for m in mism:
            text = core.uncps(m["event"].get("text", []))
            ctx.report("%s on %s" % (json.dumps(m["detail"]["bad"])[:120], json.dumps(text)[:80]),
                       {"kind": "api", "event": m["event"], "what": m["what"], "detail": m["detail"]}, None)
        os.remove(evp)
    ctx.evaluations = calls
    ctx.extra["api_calls"] = calls
    return ctx.finish("exploration", RULE)


def replay(ctx, path):
    rp = json.load(open(path))
    h = ctx.build(features=("preserve_order",))
    ev = rp["event"]
    tp = ctx.path("replay.ndjson")
    core.write_ndjson(tp, [{k: ev[k] for k in ("id", "text", "bytes") if k in ev and (k != "text" or ev[k] or "bytes" not in ev)}])
    evp, crashes = run_entry(ctx, h, "replay", tp, bytes_mod=1)
    bad = bool(crashes)
    mism, _, _ = ctx.validate(evp)
    if mism or bad:
        ctx.report("replayed", {"kind": "api", "event": ev}, None)
    for pth, s in ctx.violations:
        print("VIOLATION property=%s replay=%s  # %s" % (ctx.prop, pth, s))
    return 1 if ctx.violations else 0
