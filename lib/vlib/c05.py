import os, json, subprocess
from . import core
from .core import log

RULE = ("patterns = every combination (Depth.tla: header path x top-level key path x up to two layers of nested arrays / nested "
        "inline tables entered by dotted keys) with symbolic sizes {1, L-2, L-1, L, L+1, 4L}, enumerated by TLC, which also "
        "model-checks the counter logic (the bound follows from an additive discipline; the independent discipline admits "
        "multiplicative depth); each pattern is instantiated at the measured limit L and run through parse, to_string, Debug, "
        "clone, drop, from_document, ImDocument+into_mut, toml::from_str, Value::from_str on a 2 MiB thread stack in a release "
        "and a debug build; TLC validates verdict, kind of error, measured depth against Bound(L) = 4L. "
        "distinct_nontrivial = distinct patterns")
CFG = """SPECIFICATION Spec
CONSTANTS
  LIMIT = 8
  DISCIPLINE = "%s"
INVARIANT Liveness
%s
CHECK_DEADLOCK FALSE
"""


def run_profile(ctx, h, pats_path, tag):
    evp = ctx.path("depth-%s.ev" % tag)
    prog = ctx.path("depth-%s.progress" % tag)
    pats = core.read_ndjson(pats_path)
    start, part, parts, crashes = 0, 0, [], []
    while start < len(pats):
        outp = "%s.part%d" % (evp, part)
        p = subprocess.run([h, "depth-events", "--in", pats_path, "--out", outp, "--progress", prog, "--start", str(start)],
                           cwd=ctx.work, stdout=subprocess.PIPE, stderr=subprocess.PIPE, text=True)
        parts.append(outp)
        part += 1
        state = open(prog).read().strip() if os.path.exists(prog) else "0"
        if p.returncode == 0 and state == "done":
            break
        bad = int(state) if state.isdigit() else start
        crashes.append((bad, pats[bad], p.returncode))
        start = bad + 1
    with open(evp, "w") as f:
        for pth in parts:
            if os.path.exists(pth):
                for line in open(pth):
                    if line.endswith("\n"):
                        f.write(line)
                os.remove(pth)
    return evp, crashes


def known_for(ctx, what, pat):
    for ent in ctx.known["findings"]:
        if ent.get("status") != "known" or "C05" not in ent.get("properties", []):
            continue
        rule = ent.get("match", {})
        if rule.get("kind") == "depth-multiplicative" and what in rule.get("what", []):
            # the pattern nests inline tables entered by multi-segment dotted keys
            if any(l["c"] == "I" and l["s"] != "1" and l["n"] != "1" for l in pat["layers"]):
                return ent["id"]
    return None


def run(ctx):
    # 1. the counter logic on the specification
    r = ctx.tlc("Depth", CFG % ("additive", "INVARIANT Bounded\nINVARIANT Emit"), tag="depth-additive", workers=4)
    pats = [o for o in r.json]
    log("Depth (additive discipline): %d patterns, Bounded and Liveness hold" % len(pats))
    try:
        core.tlc("Depth", core.write_cfg(ctx.path("depth-ind.cfg"), CFG % ("independent", "INVARIANT Bounded")), ctx.work, workers=4)
        ctx.extra["independent_discipline_counterexample"] = False
    except core.ToolError as e:
        ctx.extra["independent_discipline_counterexample"] = "Invariant Bounded is violated" in str(e)
    pp = ctx.path("patterns.ndjson")
    if ctx.quick:
        pats = [p for i, p in enumerate(pats) if len(p["layers"]) < 2 or i % 4 == (ctx.seed % 4)]
    core.write_ndjson(pp, pats)
    ctx.nontrivial = set(json.dumps(p, sort_keys=True) for p in pats)
    for profile in ("release", "debug"):
        h = ctx.build(features=("preserve_order",), profile=profile)
        evp, crashes = run_profile(ctx, h, pp, profile)
        for idx, pat, rc in crashes:
            ctx.report("%s build: process died (rc=%s) on pattern %s" % (profile, rc, json.dumps(pat)),
                       {"kind": "depth-crash", "profile": profile, "pat": pat, "rc": rc}, known_for(ctx, "crash", pat))
        mism, _, n = ctx.validate(evp)
        log("%s build: %d patterns run, %d mismatches, %d crashes" % (profile, n, len(mism), len(crashes)))
        for e in core.read_ndjson(evp)[:3]:
            ctx.sample({"profile": profile, "pattern": e["pat"], "L": e["L"], "bytes": e["len"], "res": e["res"], "depth": e["depth"]})
        for m in mism:
            pat = m["event"]["pat"]
            ctx.report("%s build: %s %s" % (profile, m["what"], json.dumps(m["detail"])[:160]),
                       {"kind": "depth", "profile": profile, "event": m["event"], "what": m["what"], "detail": m["detail"], "pat": pat},
                       known_for(ctx, m["what"], pat))
    ctx.evaluations = ctx.validated
    return ctx.finish("model_checking", RULE, exhaustive=not ctx.quick)


def replay(ctx, path):
    rp = json.load(open(path))
    pat = rp.get("pat") or rp["event"]["pat"]
    pp = ctx.path("patterns.ndjson")
    core.write_ndjson(pp, [pat])
    profile = rp.get("profile", "release")
    h = ctx.build(features=("preserve_order",), profile=profile)
    evp, crashes = run_profile(ctx, h, pp, profile)
    mism, _, _ = ctx.validate(evp)
    bad = [c for c in crashes if not known_for(ctx, "crash", pat)] + [m for m in mism if not known_for(ctx, m["what"], pat)]
    if bad:
        ctx.report("replayed", {"kind": "depth", "pat": pat, "profile": profile}, None)
    for pth, s in ctx.violations:
        print("VIOLATION property=%s replay=%s  # %s" % (ctx.prop, pth, s))
    return 1 if ctx.violations else 0
