"""Shared machinery: harness build, TLC runs, trace validation, known findings, evidence."""
import os, sys, json, re, time, shutil, subprocess, hashlib, uuid, concurrent.futures

ROOT = os.path.dirname(os.path.dirname(os.path.dirname(os.path.abspath(__file__))))
SPEC = os.path.join(ROOT, "spec")
OUT = os.path.join(ROOT, "out")
HARNESS = os.path.join(ROOT, "harness")
# The code under test.  Always /repo for the registered checks; tools/seedtest.sh points VERIF_REPO at a scratch
# worktree with a seeded change, so that /repo itself is never modified while other checks may be building from it.
REPO = os.environ.get("VERIF_REPO", "/repo")


def _alt_harness():
    """a copy of the harness whose path dependencies point at VERIF_REPO (own target directory)"""
    d = os.path.join(REPO, ".verif-harness")
    os.makedirs(d, exist_ok=True)
    subprocess.run(["rsync", "-a", "--delete", "--exclude", "target", HARNESS + "/", d + "/"], check=True)
    ct = os.path.join(d, "Cargo.toml")
    txt = open(ct).read().replace('"/repo/', '"%s/' % REPO)
    open(ct, "w").write(txt)
    return d
EVID = os.path.join(ROOT, "evidence")
REPLAY = os.path.join(OUT, "replay")
KNOWN = os.path.join(ROOT, "known_findings.json")
K_FANOUT = 64  # must equal K in Validate.tla


class ToolError(Exception):
    pass


def log(msg):
    print("[%s] %s" % (time.strftime("%H:%M:%S"), msg), flush=True)


def read_ndjson(path):
    with open(path) as f:
        return [json.loads(l) for l in f if l.strip()]


def iter_ndjson(path):
    """streams the records of a (possibly very large) file"""
    with open(path) as f:
        for l in f:
            if l.strip():
                yield json.loads(l)


def write_ndjson(path, recs):
    with open(path, "w") as f:
        for r in recs:
            f.write(json.dumps(r, separators=(",", ":")))
            f.write("\n")


def cps(s):
    return [ord(c) for c in s]


def uncps(a):
    return "".join(chr(c) for c in a)


class TlcResult:
    def __init__(self):
        self.lines = []
        self.json = []       # decoded PrintT(ToJson(..)) lines
        self.generated = 0
        self.distinct = 0
        self.depth = 0
        self.rc = None
        self.wall = 0.0
        self.cmd = ""
        self.coverage = {}


_JSON_LINE = re.compile(r'^"\{.*\}"$')
_STATES = re.compile(r"^(\d[\d,]*) states generated, (\d[\d,]*) distinct states found")
_DEPTH = re.compile(r"^The depth of the complete state graph search is (\d+)")


def tlc(module, cfg, workdir, env=None, workers=8, timeout=1800, heap="6g", simulate=None, extra=None,
        deque=False, keep_lines=True, on_json=None):
    """Run TLC on SPEC/<module>.tla with config file `cfg` (path).  Raises ToolError on anything that is
    not a completed run.  Returns TlcResult."""
    meta = os.path.join(workdir, "meta-%s-%s" % (module, uuid.uuid4().hex[:10]))
    cmd = ["tlc", "-workers", str(workers), "-metadir", meta, "-cleanup", "-noGenerateSpecTE", "-config", cfg]
    if simulate:
        cmd += ["-simulate", simulate]
    if extra:
        cmd += extra
    cmd += [os.path.join(SPEC, module + ".tla")]
    e = dict(os.environ)
    jto = "-Xss1g -Xmx%s" % heap
    if deque:
        jto += " -Dtlc2.tool.queue.IStateQueue=StateDeque"
    e["JAVA_TOOL_OPTIONS"] = jto
    if env:
        e.update(env)
    r = TlcResult()
    r.cmd = " ".join(cmd)
    t0 = time.time()
    try:
        p = subprocess.Popen(["timeout", str(timeout)] + cmd, cwd=SPEC, env=e, stdout=subprocess.PIPE,
                             stderr=subprocess.STDOUT, text=True, errors="replace")
    except OSError as ex:
        raise ToolError("cannot start tlc: %s" % ex)
    tail = []
    for line in p.stdout:
        line = line.rstrip("\n")
        if _JSON_LINE.match(line):
            try:
                obj = json.loads(json.loads(line))
            except Exception:
                raise ToolError("undecodable TLC json line: %s" % line[:200])
            if on_json:
                on_json(obj)
            else:
                r.json.append(obj)
            continue
        m = _STATES.match(line)
        if m:
            r.generated = int(m.group(1).replace(",", ""))
            r.distinct = int(m.group(2).replace(",", ""))
        m = _DEPTH.match(line)
        if m:
            r.depth = int(m.group(1))
        if keep_lines:
            r.lines.append(line)
        tail.append(line)
        if len(tail) > 60:
            tail.pop(0)
    p.wait()
    r.rc = p.returncode
    r.wall = time.time() - t0
    shutil.rmtree(meta, ignore_errors=True)
    if r.rc == 124:
        raise ToolError("TLC timeout after %ss: %s" % (timeout, r.cmd))
    if r.rc != 0:
        raise ToolError("TLC failed rc=%s: %s\n%s" % (r.rc, r.cmd, "\n".join(tail[-40:])))
    return r


def write_cfg(path, text):
    with open(path, "w") as f:
        f.write(text)
    return path


VALIDATE_CFG = "SPECIFICATION Spec\nINVARIANT Conforms\nCHECK_DEADLOCK FALSE\n"


class Ctx:
    def __init__(self, prop, tier, seed):
        self.prop = prop
        self.tier = tier
        self.seed = seed
        self.t0 = time.time()
        self.work = os.path.join(OUT, "%s-%s" % (prop, tier))
        shutil.rmtree(self.work, ignore_errors=True)
        os.makedirs(self.work, exist_ok=True)
        os.makedirs(REPLAY, exist_ok=True)
        os.makedirs(EVID, exist_ok=True)
        self.states = 0
        self.transitions = 0
        self.validated = 0
        self.evaluations = 0
        self.nontrivial = set()
        self.samples = []
        self.violations = []      # (replay_path, summary)
        self.known_hits = {}      # finding id -> count
        self.extra = {}
        self.tlc_cmds = []
        self.assumptions = []
        self.trusted = ["TLC 1.8.0 evaluating /verif/spec", "Rust {:e} shortest round-trip formatting of f64",
                        "harness projections (lib/harness/src/proj.rs)"]
        self.known = load_known()
        self.quick = tier == "quick"

    # ---- harness ----
    def build(self, features=(), profile="release"):
        return build_harness(features, profile)

    def harness(self, binary, args, timeout=3600, check=True):
        p = subprocess.run([binary] + [str(a) for a in args], cwd=self.work, stdout=subprocess.PIPE,
                           stderr=subprocess.PIPE, text=True, timeout=timeout)
        if check and p.returncode != 0:
            raise ToolError("harness %s failed rc=%s: %s" % (args[0], p.returncode, p.stderr[-2000:]))
        return p

    def path(self, name):
        return os.path.join(self.work, name)

    # ---- TLC ----
    def tlc(self, module, cfg_text, tag=None, **kw):
        cfg = write_cfg(self.path("%s.cfg" % (tag or module)), cfg_text)
        r = tlc(module, cfg, self.work, **kw)
        self.states += r.distinct
        self.transitions += r.generated
        self.tlc_cmds.append(r.cmd)
        return r

    def validate(self, events_path, chunk=25000, jvms=4, workers=4, slim=None):
        """Trace validation (fan-out): returns (mismatches, u1_ids, n_events).  Each mismatch is a dict with
        the event (`event`) and TLC's report (`what`, `detail`)."""
        # the events are streamed into chunk files (thorough tiers have millions of them; only the events that TLC
        # reports on are parsed here)
        cfg = write_cfg(self.path("Validate.cfg"), VALIDATE_CFG)
        chunk_paths, sizes = [], []
        out = None
        n = 0
        with open(events_path) as f:
            for l in f:
                if not l.strip():
                    continue
                if n % chunk == 0:
                    if out:
                        out.close()
                    cp = self.path("%s.chunk%d" % (os.path.basename(events_path), len(chunk_paths)))
                    out = open(cp, "w")
                    chunk_paths.append(cp)
                    sizes.append(0)
                if slim is not None:
                    # what TLC does not look at is cut from its copy (the event reported on is read from the original)
                    l = json.dumps(slim(json.loads(l)), separators=(",", ":"))
                out.write(l if l.endswith("\n") else l + "\n")
                sizes[-1] += 1
                n += 1
        if out:
            out.close()
        if n == 0:
            return [], [], 0
        results = [None] * len(chunk_paths)

        def run(ci):
            cp = chunk_paths[ci]
            r = tlc("Validate", cfg, self.work, env={"TRACE": cp}, workers=workers, timeout=7200, keep_lines=False)
            expect = 1 + K_FANOUT + sizes[ci]
            if r.distinct != expect:
                raise ToolError("validation incomplete: %d distinct states, expected %d (%s)" % (r.distinct, expect, cp))
            return r

        with concurrent.futures.ThreadPoolExecutor(max_workers=jvms) as ex:
            futs = {ex.submit(run, ci): ci for ci in range(len(chunk_paths))}
            for f in concurrent.futures.as_completed(futs):
                results[futs[f]] = f.result()
        mism, u1 = [], []
        for ci, r in enumerate(results):
            self.states += r.distinct
            self.transitions += r.generated
            if ci == 0:
                self.tlc_cmds.append("TRACE=<events> " + r.cmd)
            wanted = {o["mismatch"] for o in r.json if "mismatch" in o} | {o["u1"] for o in r.json if "u1" in o}
            evs = {}
            if wanted and slim is None:
                with open(chunk_paths[ci]) as f:
                    for k, l in enumerate(f, 1):
                        if k in wanted:
                            evs[k] = json.loads(l)
            elif wanted:
                # the full events, from the original file
                base = ci * chunk
                with open(events_path) as f:
                    k = 0
                    for l in f:
                        if not l.strip():
                            continue
                        k += 1
                        if k - base in wanted and k > base:
                            evs[k - base] = json.loads(l)
                        if k - base > max(wanted):
                            break
            for o in r.json:
                if "mismatch" in o:
                    mism.append({"event": evs[o["mismatch"]], "what": o["what"], "detail": o["detail"]})
                elif "u1" in o:
                    u1.append(evs[o["u1"]].get("id"))
            os.remove(chunk_paths[ci])
        self.validated += n
        return mism, u1, n

    # ---- findings ----
    def report(self, summary, payload, finding_key=None):
        """A non-conformance.  payload must contain everything needed to replay.  finding_key: result of the
        property's classifier against known_findings.json (id of a `known` entry) or None."""
        if finding_key:
            self.known_hits[finding_key] = self.known_hits.get(finding_key, 0) + 1
            return
        if len(self.violations) >= 300:
            # enough replay files for one run: further violations are counted and share the last file
            self.violations.append((self.violations[-1][0], summary))
            return
        h = hashlib.sha1(json.dumps(payload, sort_keys=True).encode()).hexdigest()[:12]
        path = os.path.join(REPLAY, "%s-%s.json" % (self.prop, h))
        payload = dict(payload)
        payload["property"] = self.prop
        payload["summary"] = summary
        payload["seed"] = self.seed
        with open(path, "w") as f:
            json.dump(payload, f)
        self.violations.append((path, summary))

    def sample(self, x, cap=6):
        if len(self.samples) < cap:
            self.samples.append(x)

    def finish(self, level, rule, exhaustive=False, extra=None):
        for fid, cnt in sorted(self.known_hits.items()):
            ent = self.known["by_id"][fid]
            print("KNOWN-FINDING: property=%s %s (%s; %d occurrence(s) in this run)" % (self.prop, ent["what"], fid, cnt))
        shown = 0
        for path, summary in self.violations:
            if shown < 25:
                print("VIOLATION property=%s replay=%s  # %s" % (self.prop, path, summary))
            shown += 1
        if shown > 25:
            print("... %d further violations (replay files under %s)" % (shown - 25, REPLAY))
        cov = {
            "states": max(self.states, 1),
            "transitions": max(self.transitions, 1),
            "traces_validated_against_impl": self.validated,
            "evaluations": max(self.evaluations, self.validated, 1),
            "distinct_nontrivial": len(self.nontrivial) if isinstance(self.nontrivial, set) else int(self.nontrivial),
            "rule": rule,
            "samples": self.samples or ["(no sample recorded)"],
            "exhaustive": bool(exhaustive),
            "checker_cmd": "; ".join(self.tlc_cmds[:6]),
            "trusted_base": self.trusted,
            "known_findings_hit": self.known_hits,
        }
        cov.update(self.extra)
        if extra:
            cov.update(extra)
        ev = {
            "property_id": self.prop,
            "tier": self.tier,
            "seed": self.seed,
            "level": level,
            "coverage": cov,
            "assumptions": self.assumptions,
            "wall_s": round(time.time() - self.t0, 2),
            "violations": len(self.violations),
        }
        with open(os.path.join(EVID, "%s.json" % self.prop), "w") as f:
            json.dump(ev, f, indent=1)
        log("%s %s: %d violation(s), %d known-finding hit(s), %.1fs" % (
            self.prop, self.tier, len(self.violations), sum(self.known_hits.values()), time.time() - self.t0))
        return 1 if self.violations else 0


def load_known():
    try:
        with open(KNOWN) as f:
            k = json.load(f)
    except FileNotFoundError:
        k = {"findings": []}
    k["by_id"] = {e["id"]: e for e in k["findings"]}
    return k


_built = {}


def build_harness(features=(), profile="release"):
    key = (tuple(features), profile)
    if key in _built:
        return _built[key]
    cmd = ["cargo", "build", "--offline"]
    if profile == "release":
        cmd.append("--release")
    if features:
        cmd += ["--features", ",".join(features)]
    e = dict(os.environ)
    e["CARGO_NET_OFFLINE"] = "true"
    t0 = time.time()
    hdir = HARNESS if REPO == "/repo" else _alt_harness()
    p = subprocess.run(cmd, cwd=hdir, env=e, stdout=subprocess.PIPE, stderr=subprocess.STDOUT, text=True)
    if p.returncode != 0:
        raise ToolError("harness build failed:\n" + p.stdout[-4000:])
    src = os.path.join(hdir, "target", "release" if profile == "release" else "debug", "verif-harness")
    # keep one binary per feature set (cargo overwrites the same path)
    tag = ("-".join(features) or "default") + "-" + profile
    dst = os.path.join(hdir, "target", "verif-harness-" + tag)
    # atomic replace: a check that is still running the previous binary keeps its inode
    tmp = dst + ".%d.tmp" % os.getpid()
    shutil.copy2(src, tmp)
    os.replace(tmp, dst)
    log("harness built (%s) in %.1fs" % (tag, time.time() - t0))
    _built[key] = dst
    return dst
