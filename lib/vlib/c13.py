from . import serdecheck

RULE = ("same value family as C07; for the text toml::to_string(v): toml::from_str, toml_edit::de::from_str, from_slice, "
        "from_document(DocumentMut), from_document(ImDocument), Value::try_into, Table::try_into and try_from+try_into must all "
        "succeed with a value equal to v; Value::try_from(v) must be the tree SerdeModel.Enc(v) (the same tree the text denotes), "
        "including types containing date-times. distinct_nontrivial = distinct value shapes")


def belongs(m):
    if m["what"] == "serde-try_from":
        return True
    if m["what"] in ("serde-enc-text", "serde-enc-unsupported-accepted", "serde-enc-unexpected-error"):
        return m["detail"].get("route") in ("toml::Table::try_from", "toml::Value::try_from")
    return m["what"] == "serde-dec" and m["detail"].get("route") not in serdecheck.PRIMARY_DEC


def run(ctx):
    serdecheck.run_serde(ctx, belongs)
    # the single-value deserializers on every value spelling of the generator
    from . import parsecheck, core
    h = ctx.build(features=("preserve_order",))
    recs = parsecheck.gen_lex_cases(ctx, True, 401 if ctx.quick else 151, 22 if ctx.quick else 48, "gen")
    gp = ctx.path("gen.ndjson")
    core.write_ndjson(gp, recs)
    vp = parsecheck.value_texts(ctx, gp)
    parsecheck.process_inputs(ctx, h, [("values", vp)], {"vde-verdict", "vde-tree"}, "value-events")
    return ctx.finish("model_checking", RULE)


def replay(ctx, path):
    return serdecheck.replay(ctx, path, belongs)
