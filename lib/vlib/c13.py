from . import serdecheck

RULE = ("same value family as C07; for the text toml::to_string(v): toml::from_str, toml_edit::de::from_str, from_slice, "
        "from_document(DocumentMut), from_document(ImDocument), Value::try_into, Table::try_into and try_from+try_into must all "
        "succeed with a value equal to v; Value::try_from(v) must be the tree SerdeModel.Enc(v) (the same tree the text denotes), "
        "including types containing date-times. distinct_nontrivial = distinct value shapes")


def belongs(m):
    if m["what"] == "serde-try_from":
        return True
    if m["what"] in ("serde-enc-text", "serde-enc-unsupported-accepted", "serde-enc-unexpected-error"):
        return m["detail"].get("route") in ("toml::Table::try_from", "toml::Value::try_from")
    return m["what"] == "serde-dec" and m["detail"].get("route") not in serdecheck.PRIMARY_DEC


def run(ctx):
    serdecheck.run_serde(ctx, belongs)
    return ctx.finish("model_checking", RULE)


def replay(ctx, path):
    return serdecheck.replay(ctx, path, belongs)
