from . import serdecheck

RULE = ("toml::Value trees whose keys make sorted and insertion order interleave scalars, arrays, arrays of tables and tables, "
        "and the derive family of C07, in both builds (with and without preserve_order): to_string twice gives the same text, "
        "to_string(from_str(to_string(v))) = to_string(v), plain and pretty outputs decode to equal values, every text is valid "
        "TOML denoting SerdeModel.Enc(v) (a table's own values therefore precede its sub-tables). "
        "distinct_nontrivial = distinct value shapes")


def belongs(m):
    if m["what"] in ("serde-nondeterministic", "serde-fixpoint"):
        return True
    if m["what"] == "serde-enc-text":
        return m["detail"].get("route") in ("toml::to_string", "toml::to_string_pretty")
    return m["what"] == "serde-dec" and m["detail"].get("route") in serdecheck.PRIMARY_DEC


def run(ctx):
    # specification level: the three emission passes of `impl Serialize for toml::Value` (SerImpl) partition the
    # entries of every table, keep the map order inside a pass, and put everything that needs a header last
    r = ctx.tlc("MCSerImpl", "SPECIFICATION Spec\nCONSTANT MaxLen = %d\n" % (5 if ctx.quick else 7), tag="serimpl", workers=2, timeout=3600)
    ctx.extra["SerImpl_emission_passes_partition"] = {"kind_sequences_up_to_length": 5 if ctx.quick else 7}
    serdecheck.run_serde(ctx, belongs, builds=(("preserve_order",), ()))
    return ctx.finish("model_checking", RULE)


def replay(ctx, path):
    return serdecheck.replay(ctx, path, belongs)
