import os
from . import core, apicheck

RULE = ("all strings of length <= L over the 14-class alphabet of C10 (L = 4 quick, 6 thorough) plus every ASCII byte alone, between letters and before a quote / apostrophe / line feed, plus seeded random long strings "
        "with runs of quotes; for every string every builder style of toml_write (keys: unquoted, literal, basic_pretty, basic, "
        "default; values: literal, ml_literal, basic_pretty, ml_basic_pretty, basic, ml_basic, default), ToTomlKey/ToTomlValue for "
        "str, toml_edit::Key/Value Display and toml::Value Display; TLC decodes every offered token with TomlLex in the "
        "position's grammar and compares with the string; the real parser re-reads the token alone and inside a document. "
        "distinct_nontrivial = distinct (string, position, token) triples")


def run(ctx):
    h = ctx.build(features=("preserve_order",))
    evp = ctx.path("quote.ev")
    L, nrand = (4, 2000) if ctx.quick else (5, 50000)
    ctx.harness(h, ["quote-events", "--maxlen", L, "--random", nrand, "--seed", ctx.seed, "--out", evp])
    toks = 0
    refused = 0
    for e in core.iter_ndjson(evp):
        for q in e["q"]:
            if q["offered"]:
                toks += 1
            else:
                refused += 1
        if len(ctx.samples) < 6 and len(e["s"]) == 2 and (toks % 53 == 0):
            ctx.sample({"s": core.uncps(e["s"]), "tokens": [[q["pos"], q["style"], core.uncps(q["token"]) if q["offered"] else None] for q in e["q"]]})
    describe = lambda m: repr(core.uncps(m["detail"].get("s", []))) + " " + str(m["detail"].get("style"))
    apicheck.judge(ctx, evp, ["quote-"], describe)
    os.remove(evp)
    if not ctx.quick:
        # length 6 (what the property asks for): 7.5 M strings, one slice per first symbol so that it fits on disk
        L = 6
        for first in range(14):
            ctx.harness(h, ["quote-events", "--maxlen", L, "--first", first, "--random", 0, "--seed", ctx.seed, "--out", evp])
            for e in core.iter_ndjson(evp):
                for q in e["q"]:
                    if q["offered"]:
                        toks += 1
                    else:
                        refused += 1
            apicheck.judge(ctx, evp, ["quote-"], describe)
            os.remove(evp)
            core.log("length-6 slice %d/14 done" % (first + 1))
    ctx.nontrivial = toks
    ctx.extra["offered_tokens"] = toks
    ctx.extra["refused_styles"] = refused
    ctx.extra["max_exhaustive_length"] = L
    ctx.evaluations = toks
    return ctx.finish("model_checking", RULE, exhaustive=True)


def replay(ctx, path):
    return apicheck.replay_event(ctx, path, lambda ev: None)
