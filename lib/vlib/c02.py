from . import parsecheck

RULE = ("same texts as C01; for every accepted text the projected tree of each front end (keys, nesting, order, types, "
        "scalar values in the domain of DESIGN.md 3.2) is compared by TLC with the tree TomlLex+TomlDef assign to the "
        "text. distinct_nontrivial = distinct texts of >= 3 code points")


def run(ctx):
    parsecheck.run_parse(ctx, {"corpus", "mutants", "gen", "dates", "doc"}, {"tree"})
    # the value, key and key-path entry points on the value texts of the generator
    h = ctx.build(features=("preserve_order",))
    vp = parsecheck.value_texts(ctx, ctx.path("gen.ndjson"))
    parsecheck.process_inputs(ctx, h, [("values", vp)], {"value-tree", "key-tree", "keypath-tree"}, "value-events")
    return ctx.finish("model_checking", RULE)


def replay(ctx, path):
    return parsecheck.replay_parse(ctx, path, {"tree"})
