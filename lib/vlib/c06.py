import os, json, collections
from . import core, apicheck
from .core import log

RULE = ("abstract trees enumerated by TLC (MCBuild): every tree of depth <= 3 over leaf / array / inline table / standard table / "
        "array of tables (tables whose only content is sub-tables, arrays of tables nested in arrays of tables, empty containers, "
        "mixed arrays), then one leaf at a time ranging over adversarial strings (controls, quotes, backslashes, newlines, BOM, "
        "multi-line content in inline tables), i64 edges, signed zero / inf / nan and edge doubles, all date-time kinds, and one key at "
        "a time over adversarial keys (empty, number-, date- and boolean-like, dots, quotes, controls); each tree is assembled "
        "through insert/push, IndexMut assignment, collect/extend/From, and toml::Table / toml::Value Display, printed twice; TLC "
        "checks the text is valid TOML, decodes to BuildDef.ExpectedTree(shape) with the same order, and printing is deterministic. "
        "distinct_nontrivial = distinct trees")
CFG = """SPECIFICATION Spec
CONSTANTS
  FULL = %s
INVARIANT WellFormed
INVARIANT Emit
CHECK_DEADLOCK FALSE
"""


def run(ctx):
    h = ctx.build(features=("preserve_order",))
    shapes = []
    r = ctx.tlc("MCBuild", CFG % ("FALSE" if ctx.quick else "TRUE"), tag="build", workers=6, timeout=3600, on_json=lambda o: shapes.append(o))
    log("MCBuild: %d distinct trees" % len(shapes))
    sp = ctx.path("shapes.ndjson")
    core.write_ndjson(sp, shapes)
    evp = ctx.path("build.ev")
    ctx.harness(h, ["build-events", "--in", sp, "--out", evp])
    mism, _, n = ctx.validate(evp, chunk=3000)
    for e in core.iter_ndjson(evp):
        ctx.nontrivial.add(json.dumps(e["shape"], sort_keys=True))
        if len(ctx.samples) < 5 and len(ctx.nontrivial) % 211 == 3:
            ctx.sample({"shape": e["shape"], "printed": core.uncps(e["r"][0]["text"])})
    cls = collections.Counter((m["what"], m["detail"].get("route")) for m in mism)
    log("build: %d trees x %d routes validated, %d mismatches %s" % (n, 5, len(mism), dict(cls)))
    for m in mism:
        d = m["detail"]
        ctx.report("%s %s: %s" % (m["what"], d.get("route"), json.dumps(core.uncps(d.get("text", [])))[:120]),
                   {"kind": "build", "event": {"shape": m["event"]["shape"], "id": m["event"]["id"]}, "what": m["what"], "detail": d}, None)
    ctx.evaluations = n * 5
    return ctx.finish("model_checking", RULE, exhaustive=True)


def replay(ctx, path):
    rp = json.load(open(path))
    h = ctx.build(features=("preserve_order",))
    sp = ctx.path("shapes.ndjson")
    core.write_ndjson(sp, [{"shape": rp["event"]["shape"]}])
    evp = ctx.path("build.ev")
    ctx.harness(h, ["build-events", "--in", sp, "--out", evp])
    mism, _, _ = ctx.validate(evp)
    for m in mism:
        ctx.report("replayed %s" % m["what"], {"kind": "build", "event": rp["event"], "what": m["what"], "detail": m["detail"]}, None)
    for pth, s in ctx.violations:
        print("VIOLATION property=%s replay=%s  # %s" % (ctx.prop, pth, s))
    return 1 if ctx.violations else 0
