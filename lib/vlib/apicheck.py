"""C10 / C11 / C12: sub-lexer events (quoting, numbers, date-times) validated by TLC against TomlLex."""
import os, json
from . import core
from .core import log


def known_for(ctx, m):
    for ent in ctx.known["findings"]:
        if ent.get("status") != "known" or ctx.prop not in ent.get("properties", []):
            continue
        rule = ent.get("match", {})
        if rule.get("kind") == "what" and m["what"] == rule.get("what"):
            need = rule.get("detail", {})
            if all(m["detail"].get(k) == v for k, v in need.items()):
                return ent["id"]
        if rule.get("kind") == "dt-text" and m["what"] in rule.get("what", []):
            import re
            if re.search(rule["text_regex"], core.uncps(m["event"].get("text", []))):
                return ent["id"]
    return None


def judge(ctx, evp, want, describe):
    mism, _, n = ctx.validate(evp)
    log("%s: %d events validated, %d mismatches" % (os.path.basename(evp), n, len(mism)))
    for m in mism:
        if want and not any(m["what"].startswith(w) for w in want):
            ctx.extra["mismatches_belonging_to_other_properties"] = ctx.extra.get("mismatches_belonging_to_other_properties", 0) + 1
            continue
        ctx.report("%s %s" % (m["what"], describe(m)), {"kind": "api", "event": m["event"], "what": m["what"],
                                                        "detail": m["detail"]}, known_for(ctx, m))
    return n


def tlc_texts(ctx, module, cfg_text, tag):
    texts = []
    r = ctx.tlc(module, cfg_text, tag=tag, workers=8, timeout=7200, on_json=lambda o: texts.append(o))
    kinds = {}
    for t in texts:
        kinds[t["kind"]] = kinds.get(t["kind"], 0) + 1
    log("%s %s: %d distinct states, %d texts %s, %.1fs" % (module, tag, r.distinct, len(texts), kinds, r.wall))
    ctx.extra.setdefault("generator_models", []).append({"module": module, "distinct_states": r.distinct, "texts_by_kind": kinds})
    return [{"id": "%s#%s%d" % (tag, t["kind"], i), "text": t["text"]} for i, t in enumerate(texts)]


def replay_event(ctx, path, subcmd_for):
    rp = json.load(open(path))
    h = ctx.build(features=("preserve_order",))
    ev = rp["event"]
    evp = ctx.path("replay.ev")
    sub = subcmd_for(ev)
    if sub is None:
        core.write_ndjson(evp, [ev])   # events without a text input are re-validated as recorded
    else:
        tp = ctx.path("replay.ndjson")
        core.write_ndjson(tp, [{"id": ev.get("id", "replay"), "text": ev["text"]}])
        ctx.harness(h, [sub, "--in", tp, "--out", evp])
    mism, _, _ = ctx.validate(evp)
    for m in mism:
        if not known_for(ctx, m):
            ctx.report("%s" % m["what"], {"kind": "api", "event": m["event"], "what": m["what"], "detail": m["detail"]}, None)
    for pth, s in ctx.violations:
        print("VIOLATION property=%s replay=%s  # %s" % (ctx.prop, pth, s))
    return 1 if ctx.violations else 0
