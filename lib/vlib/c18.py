import os, json, subprocess, shutil, collections
from . import core, parsecheck, apicheck, c05, c06
from .core import log

RULE = ("(1) every feature combination of toml_edit {none, parse, display, parse+display, +perf, +serde, +unbounded} and toml "
        "{none, parse, display, +preserve_order} is built (cargo check); (2) a deterministic battery - the toml-test corpus, a "
        "seed-independent sample of the TLC-generated documents (spellings, layouts, decor, mutants), nesting patterns at the "
        "recursion limit, TLC-enumerated construction trees - is run in the cells default, preserve_order, perf, perf+preserve_order, "
        "unbounded (full API), parse-only and display-only (generated crates built with those features); per item digests of "
        "verdict / tree / spans / printed text are compared by TLC: equal everywhere, except toml::Table order under preserve_order "
        "and nesting verdicts under unbounded; (3) the perf and unbounded cells are additionally validated against the specification "
        "(parse events). distinct_nontrivial = distinct battery items")
EDIT_CELLS = [("none", ""), ("parse", "parse"), ("display", "display"), ("parse+display", "parse,display"),
              ("parse+display+perf", "parse,display,perf"), ("parse+display+serde", "parse,display,serde"), ("parse+serde", "parse,serde"),
              ("display+serde", "display,serde"), ("parse+display+unbounded", "parse,display,unbounded"), ("perf+serde+unbounded+parse+display", "parse,display,perf,serde,unbounded")]
TOML_CELLS = [("none", ""), ("parse", "parse"), ("display", "display"), ("parse+display", "parse,display"),
              ("parse+display+preserve_order", "parse,display,preserve_order"), ("parse+preserve_order", "parse,preserve_order"),
              ("display+preserve_order", "display,preserve_order")]
CELLS = [("default", ()), ("preserve_order", ("preserve_order",)), ("perf", ("perf",)), ("perf+preserve_order", ("perf", "preserve_order")), ("unbounded", ("unbounded",))]


def cfg_builds(ctx):
    tgt = ctx.path("cfgtarget")
    evs = []
    for crate, cells in (("toml_edit", EDIT_CELLS), ("toml", TOML_CELLS)):
        for name, feats in cells:
            cmd = ["cargo", "check", "--offline", "-q", "-p", crate, "--no-default-features", "--target-dir", tgt]
            if feats:
                cmd += ["--features", feats]
            p = subprocess.run(cmd, cwd=core.REPO, stdout=subprocess.PIPE, stderr=subprocess.STDOUT, text=True)
            evs.append({"ev": "cfgbuild", "id": "%s[%s]" % (crate, name), "cell": "%s[%s]" % (crate, name), "ok": p.returncode == 0,
                        "log": p.stdout[-600:] if p.returncode else ""})
    shutil.rmtree(tgt, ignore_errors=True)
    return evs


def mini_crate(ctx, name, template, toml_feats, edit_feats, arg):
    d = ctx.path("gen-c18-" + name)
    shutil.rmtree(d, ignore_errors=True)
    os.makedirs(os.path.join(d, "src"))
    os.makedirs(os.path.join(d, ".cargo"))
    fe = ", ".join('"%s"' % f for f in edit_feats)
    ft = ", ".join('"%s"' % f for f in toml_feats)
    open(os.path.join(d, "Cargo.toml"), "w").write(
        '[package]\nname = "c18%s"\nversion = "0.0.0"\nedition = "2021"\n\n[workspace]\n\n[dependencies]\n'
        'toml = { path = "/repo/crates/toml", default-features = false, features = [%s] }\n'
        'toml_edit = { path = "/repo/crates/toml_edit", default-features = false, features = [%s] }\n'
        'toml_datetime = { path = "/repo/crates/toml_datetime" }\nserde = "1.0"\nserde_json = "1.0"\n\n[profile.release]\ndebug-assertions = true\noverflow-checks = true\n'
        % (name.replace("-", ""), ft, fe))
    open(os.path.join(d, ".cargo", "config.toml"), "w").write('[net]\noffline = true\n[build]\ntarget-dir = "target"\n')
    _ct = os.path.join(d, "Cargo.toml")
    _txt = open(_ct).read().replace('"/repo/', '"%s/' % core.REPO)
    open(_ct, "w").write(_txt)
    shutil.copy(os.path.join(core.REPO, "Cargo.lock"), os.path.join(d, "Cargo.lock"))
    shutil.copy(os.path.join(core.ROOT, "lib", "gen_templates", template), os.path.join(d, "src", "main.rs"))
    p = subprocess.run(["cargo", "run", "--release", "--offline", "-q", "--", arg], cwd=d, stdout=subprocess.PIPE, stderr=subprocess.PIPE, text=True)
    shutil.rmtree(os.path.join(d, "target"), ignore_errors=True)
    if p.returncode != 0:
        return None, p.stderr[-1500:]
    return [json.loads(l) for l in p.stdout.splitlines() if l.startswith("{")], ""


def run(ctx):
    evs = cfg_builds(ctx)
    log("feature matrix: %d configurations checked, %d failed" % (len(evs), sum(1 for e in evs if not e["ok"])))
    # ---- the battery (deterministic: independent of the seed) ----
    h0 = ctx.build(features=())
    corpus = ctx.path("corpus.ndjson")
    ctx.harness(h0, ["gen-corpus", "--dir", os.path.join(core.ROOT, "corpus"), "--out", corpus])
    seed = ctx.seed
    ctx.seed = 1
    gen = parsecheck.gen_lex_cases(ctx, True, 401, 22, "gen")
    ctx.seed = seed
    step = 40 if ctx.quick else 6
    battery = [r for r in core.iter_ndjson(corpus) if "text" in r] + [r for i, r in enumerate(gen) if i % step == 0]
    bp = ctx.path("battery.ndjson")
    core.write_ndjson(bp, battery)
    r = ctx.tlc("Depth", c05.CFG % ("additive", "INVARIANT Bounded\nINVARIANT Emit"), tag="depth-additive", workers=4)
    # moderate sizes only: with the limit lifted ("unbounded") deeper patterns are accepted and their cost explodes
    pats = [p for p in r.json if len(p["layers"]) < 2 and p["ks"] != "L" and p["hs"] != "4L"
            and all(l["n"] != "4L" and not (l["c"] == "I" and l["s"] != "1" and l["n"] != "1") for l in p["layers"])]
    pp = ctx.path("patterns.ndjson")
    core.write_ndjson(pp, pats)
    dp = ctx.path("depth-texts.ndjson")
    ctx.harness(h0, ["depth-render", "--in", pp, "--out", dp])
    shapes = []
    ctx.tlc("MCBuild", c06.CFG % "FALSE", tag="build", workers=6, timeout=3600, on_json=lambda o: shapes.append(o))
    shapes = shapes[::3] if ctx.quick else shapes
    sp = ctx.path("shapes.ndjson")
    core.write_ndjson(sp, shapes)
    # ---- full-API cells ----
    per = {}     # (kind, item) -> list of {cell, d}
    def add(kind, item, cell, d):
        per.setdefault((kind, item), []).append({"cell": cell, "d": d})
    bins = {}
    for cell, feats in CELLS:
        h = ctx.build(features=feats)
        bins[cell] = h
        for tag, path in (("battery", bp), ("depth", dp)):
            outp = ctx.path("digest-%s-%s.ndjson" % (cell, tag))
            ctx.harness(h, ["digest", "--in", path, "--out", outp])
            for rec in core.iter_ndjson(outp):
                if rec["id"] == "probe":
                    if tag == "battery":
                        add("invariant", "probe/try_from", cell, rec["d_probe"])
                    continue
                k = "depth" if tag == "depth" else "invariant"
                add(k, "%s/edit" % rec["id"], cell, rec["d_edit"])
                add(k, "%s/parse" % rec["id"], cell, rec["d_parse"])
                add(k, "%s/toml-sorted" % rec["id"], cell, rec["d_toml_sorted"])
                add("depth" if tag == "depth" else "order", "%s/toml-order" % rec["id"], cell, rec["d_toml_order"])
                if tag == "battery":
                    add("orderlaw", "%s/order-law" % rec["id"], cell, rec["order_law"])
                    add("invariant", "%s/map-history-content" % rec["id"], cell, rec["d_hist_content"])
        outp = ctx.path("build-%s.ev" % cell)
        ctx.harness(h, ["build-events", "--in", sp, "--out", outp])
        for rec in core.iter_ndjson(outp):
            for rt in rec["r"]:
                kind = "order" if rt["route"].startswith("toml::") else "invariant"
                add(kind, "%s/%s" % (rec["id"], rt["route"]), cell, apicheck_hash(rt))
    # ---- parse-only and display-only cells (generated crates) ----
    po, err = mini_crate(ctx, "parse-only", "c18_parse_main.rs", ["parse"], ["parse"], bp)
    evs.append({"ev": "cfgbuild", "id": "generated parse-only crate", "cell": "parse-only program", "ok": po is not None, "log": err})
    for rec in po or []:
        if rec["id"] == "probe":
            add("invariant", "probe/try_from", "parse-only", rec["d_probe"])
            continue
        add("invariant", "%s/parse" % rec["id"], "parse-only", rec["d_parse"])
    do, err = mini_crate(ctx, "display-only", "c18_display_main.rs", ["display"], ["display"], sp)
    evs.append({"ev": "cfgbuild", "id": "generated display-only crate", "cell": "display-only program", "ok": do is not None, "log": err})
    for rec in do or []:
        for rt in rec["r"]:
            kind = "order" if rt["route"].startswith("toml::") else "invariant"
            add(kind, "%s/%s" % (rec["id"], rt["route"]), "display-only", apicheck_hash(rt))
    for (kind, item), cells in per.items():
        evs.append({"ev": "digest", "id": item, "item": item, "kind": kind, "cells": cells})
    ctx.nontrivial = set(k for k in per)
    for e in evs[-3:]:
        ctx.sample(e)
    evp = ctx.path("digest.ev")
    core.write_ndjson(evp, evs)
    mism, _, n = ctx.validate(evp, chunk=40000)
    cls = collections.Counter((m["what"], m["detail"].get("kind")) for m in mism)
    log("digests: %d items x up to 7 cells, %d mismatches %s" % (len(per), len(mism), dict(cls)))
    for m in mism:
        ctx.report("%s %s" % (m["what"], json.dumps(m["detail"])[:220]), {"kind": "digest", "event": m["event"], "what": m["what"], "detail": m["detail"]}, None)
    # ---- the perf and unbounded cells conform to the same specification ----
    for cell in ("perf", "unbounded"):
        parsecheck.process_inputs(ctx, bins[cell], [("battery-" + cell, bp)], {"verdict", "tree", "panic"}, "parse-events")
    ctx.extra["configurations_built"] = sum(1 for e in evs if e["ev"] == "cfgbuild")
    ctx.evaluations = sum(len(c) for c in per.values())
    return ctx.finish("exploration", RULE, exhaustive=True)


def apicheck_hash(rt):
    import hashlib
    return hashlib.sha1(json.dumps([rt["res"], rt["text"], rt["text2"]]).encode()).hexdigest()[:16]


def replay(ctx, path):
    # a configuration-level finding is replayed by running the whole (deterministic) battery again
    return run(ctx)
