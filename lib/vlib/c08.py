import os, json, collections
from . import core
from .core import log

RULE = ("start documents with a unique comment and deliberate spacing on every entry (scalars, arrays incl. multi-line, inline "
        "tables, dotted keys, standard tables incl. super-table after sub-table, arrays of tables with interleaved sub-tables and "
        "nested arrays of tables, out-of-order headers, nested and dotted inline tables) x every history of <= 2 operations (quick: all single operations, second operations sampled) "
        "from {insert new key (scalar or table), replace value, remove, array push / insert / replace / remove, array-of-tables push / remove, "
        "sort_values, fmt, clear, to_inline, to_table} on every addressable table position, enumerated by TLC on the MCEdit machine (content-level laws checked); "
        "plus seeded random histories (quick 10 x <= 4 operations, thorough 150 x <= 6) on each of the ~180 toml-test documents that print "
        "back unchanged, the operations drawn from what the API offers at each moment; each history is applied through the public API and printed after every step; TLC validates every step: valid TOML, "
        "content = operation applied to the previous content, survivors in their relative order (after sort_values: body pairs ascending, headers and value containers in their order), and every statement line and "
        "attached comment that the operation does not name still present verbatim and in order. "
        "distinct_nontrivial = distinct (document, history) pairs")
CFG = """SPECIFICATION Spec
CONSTANTS
  DocNo = %d
  MaxN = %d
  EMIT = TRUE
  SAMPLE = %d
INVARIANT Emit
PROPERTY SurvivorsKeepOrder
PROPERTY OnlyTouchedChanges
PROPERTY InsertThenRemoveIsIdentity
CHECK_DEADLOCK FALSE
"""
NDOCS = 4
ENC_CFG = """SPECIFICATION Spec
CONSTANTS
  Stmts <- MCStmts
  MaxN = %d
  MaxPath = %d
  EMIT = FALSE
  RICH = 0
  INLINE = FALSE
  NARROW = %d
  UNIFORM = TRUE
  EDITS = %d
INVARIANT EncodeKeepsContent
CHECK_DEADLOCK FALSE
"""


def known_for(ctx, m):
    d = m["detail"]
    for ent in ctx.known["findings"]:
        if ent.get("status") != "known" or "C08" not in ent.get("properties", []):
            continue
        rule = ent.get("match", {})
        if rule.get("kind") == "edit" and m["what"] in rule["what"] and d.get("op") in rule["ops"]:
            return ent["id"]
    return None


def run(ctx):
    h = ctx.build(features=("preserve_order",))
    # specification level: what the implementation-shaped printer (EncodeImpl: position-less tables follow the table
    # collected before them, stable sort by position, hidden implicit tables, dotted tables flattened) writes re-parses
    # to the content of the tree, for every parsed statement sequence of the scope and every <= EDITS insert / remove
    scopes = [(3, 2, 0, 1, "wide"), (5, 3, 1, 1, "narrow"), (5, 3, 2, 1, "narrow2")]
    if not ctx.quick:
        scopes += [(4, 2, 0, 1, "wide4"), (3, 2, 0, 2, "wide-2edits"), (4, 3, 1, 2, "narrow-2edits"), (5, 3, 2, 2, "narrow2-2edits")]
    for (n, pth, narrow, edits, tag) in scopes:
        r = ctx.tlc("MCEncode", ENC_CFG % (n, pth, narrow, edits), tag="encode-" + tag, workers=8, timeout=7200)
        ctx.extra.setdefault("EncodeImpl_prints_what_the_tree_holds", []).append(
            {"scope": tag, "MaxN": n, "MaxPath": pth, "edits": edits, "distinct_states": r.distinct})
        log("MCEncode %s: %d distinct states, %.1fs" % (tag, r.distinct, r.wall))
    # the array editor (ArrayImpl: which trivia belongs to which element, value_op's decor for new elements, replace
    # keeping decor, fmt, encode_array): every history of <= MaxN edits on nine start arrays prints an array of the
    # grammar with the expected elements, and what is printed reads back as the same state
    r = ctx.tlc("MCArray", "SPECIFICATION Spec\nCONSTANT MaxN = %d\nINVARIANT PrintsAnArray\nINVARIANT ReadBack\nINVARIANT StartsReadBack\nCHECK_DEADLOCK FALSE\n" % (3 if ctx.quick else 5),
                tag="array", workers=4, timeout=3600)
    ctx.extra["ArrayImpl_prints_arrays"] = {"MaxN": 3 if ctx.quick else 5, "distinct_states": r.distinct}
    # the start documents as text (from the committed module, via TLC's own parse in MCEdit)
    docs = []
    src = open(os.path.join(core.SPEC, "EditDocs.tla")).read()
    import re
    for m in re.finditer(r"^Doc(\d+) == <<([0-9, ]*)>>", src, re.M):
        docs.append({"text": [int(x) for x in m.group(2).split(",")]})
    dp = ctx.path("docs.ndjson")
    core.write_ndjson(dp, docs)
    hists = []
    for dn in range(1, NDOCS + 1):
        got = {}
        def on(o):
            got[json.dumps(o["ops"], sort_keys=True)] = o
        r = ctx.tlc("MCEdit", CFG % (dn, 2, 5 if ctx.quick else 1), tag="edit-doc%d" % dn, workers=6, timeout=7200, on_json=on)
        log("MCEdit doc %d: %d distinct states, %d histories, %.1fs" % (dn, r.distinct, len(got), r.wall))
        hists += list(got.values())
    hp = ctx.path("hist.ndjson")
    core.write_ndjson(hp, hists)
    # direction V: seeded random histories on every corpus document that prints back unchanged (the operations are
    # drawn by the harness from what the API offers at the moment; TLC validates every step like the others)
    corpus = ctx.path("corpus.ndjson")
    ctx.harness(h, ["gen-corpus", "--dir", os.path.join(core.ROOT, "corpus"), "--out", corpus])
    rp = ctx.path("hist-random.ndjson")
    ctx.harness(h, ["gen-edit-random", "--corpus", corpus, "--n", 10 if ctx.quick else 150, "--len", 4 if ctx.quick else 6, "--seed", ctx.seed, "--out", rp])
    nrand = sum(1 for _ in open(rp))
    with open(hp, "a") as f:
        f.write(open(rp).read())
    ctx.extra["random_histories_on_corpus_documents"] = nrand
    evp = ctx.path("edit.ev")
    ctx.harness(h, ["edit-events", "--in", hp, "--docs", dp, "--out", evp])
    mism, _, n = ctx.validate(evp, chunk=2500, jvms=6, workers=2)
    steps = 0
    skipped = 0
    for e in core.iter_ndjson(evp):
        ctx.nontrivial.add((e["doc"] or e["id"].split("#")[0], json.dumps([[s["op"], s["path"], s["key"], s["i"], s["v"]["k"]] for s in e["steps"]])))
        steps += sum(1 for s in e["steps"] if s["res"] == "ok")
        skipped += sum(1 for s in e["steps"] if s["res"] == "skip")
        if len(ctx.samples) < 4 and len(e["steps"]) == 2 and all(s["res"] == "ok" for s in e["steps"]) and len(ctx.nontrivial) % 97 == 0:
            ctx.sample({"doc": e["doc"], "ops": [[s["op"], [core.uncps(x) if not x or x[0] >= 0 else x for x in s["path"]], core.uncps(s["key"]), s["i"]] for s in e["steps"]],
                        "printed_after_last_step": core.uncps(e["steps"][-1]["text"])})
    # model drift of the implementation-shaped printer (EncodeImpl): reported in the evidence, never a violation
    adrift = [m for m in mism if m["what"] == "drift-array"]
    nsteps_arr = sum(1 for e in core.iter_ndjson(evp) for s in e["steps"] if s["res"] == "ok" and s["op"].startswith("array_"))
    ctx.extra["model_drift_ArrayImpl"] = {"array_steps": nsteps_arr, "text_mismatches": len(adrift),
                                          "first": [{"doc": m["event"]["doc"] or m["event"]["id"], "step": m["detail"]["step"], "op": m["detail"]["op"],
                                                     "model": core.uncps(m["detail"]["model"]), "impl": core.uncps(m["detail"]["impl"])} for m in adrift[:5]]}
    log("model drift (ArrayImpl vs the text of edited arrays): %d mismatches on %d array steps" % (len(adrift), nsteps_arr))
    drift = [m for m in mism if m["what"] == "drift-encode"]
    mism = [m for m in mism if m["what"] not in ("drift-encode", "drift-array")]
    compared = sum(1 for e in core.iter_ndjson(evp) for k, s in enumerate(e["steps"])
                   if s["res"] == "ok" and all(x["op"] in ("insert", "remove") for x in e["steps"][:k + 1]))
    ctx.extra["model_drift_EncodeImpl"] = {"histories": n, "insert_remove_steps_leading_a_history": compared, "statement_order_mismatches": len(drift),
                                           "first": [{"doc": m["event"]["doc"], "step": m["detail"]["step"], "op": m["detail"]["op"]} for m in drift[:5]]}
    log("model drift (EncodeImpl vs printed statement order): %d mismatches, %d insert/remove steps at the head of %d histories" % (len(drift), compared, n))
    cls = collections.Counter((m["what"], m["detail"].get("op")) for m in mism)
    log("edit: %d histories, %d steps validated (%d not applicable to the API), %d mismatches %s" % (n, steps, skipped, len(mism), dict(cls)))
    for m in mism:
        d = m["detail"]
        ops = " ; ".join("%s(%s/%s%s)" % (s["op"], "/".join(core.uncps(x) if not x or x[0] >= 0 else str(x[1]) for x in s["path"]), core.uncps(s["key"]), "," + str(s["i"]) if s["op"].startswith("a") else "")
                         for s in m["event"]["steps"][:d.get("step", 1)])
        extra = (" lost=" + json.dumps(core.uncps(d["lost"]))) if "lost" in d else ""
        ctx.report("%s %s: %s%s" % (m["what"], ("doc%d" % m["event"]["doc"]) if m["event"]["doc"] else m["event"]["id"], ops, extra)[:300],
                   {"kind": "edit", "event": dict({"doc": m["event"]["doc"], "ops": [{k: s[k] for k in ("op", "path", "key", "v", "i")} for s in m["event"]["steps"]]},
                                             **({"start": m["event"]["start"], "id": m["event"]["id"]} if m["event"]["doc"] == 0 else {})),
                    "what": m["what"], "detail": d}, known_for(ctx, m))
    ctx.extra["steps_validated"] = steps
    ctx.evaluations = steps
    return ctx.finish("model_checking", RULE, exhaustive=not ctx.quick)


def replay(ctx, path):
    rp = json.load(open(path))
    h = ctx.build(features=("preserve_order",))
    docs = []
    import re
    src = open(os.path.join(core.SPEC, "EditDocs.tla")).read()
    for m in re.finditer(r"^Doc(\d+) == <<([0-9, ]*)>>", src, re.M):
        docs.append({"text": [int(x) for x in m.group(2).split(",")]})
    dp = ctx.path("docs.ndjson")
    core.write_ndjson(dp, docs)
    hp = ctx.path("hist.ndjson")
    core.write_ndjson(hp, [rp["event"]])
    evp = ctx.path("edit.ev")
    ctx.harness(h, ["edit-events", "--in", hp, "--docs", dp, "--out", evp])
    mism, _, _ = ctx.validate(evp)
    for m in mism:
        if not known_for(ctx, m):
            ctx.report("replayed %s" % m["what"], {"kind": "edit", "event": rp["event"], "what": m["what"], "detail": m["detail"]}, None)
    for pth, s in ctx.violations:
        print("VIOLATION property=%s replay=%s  # %s" % (ctx.prop, pth, s))
    return 1 if ctx.violations else 0
