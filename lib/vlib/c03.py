from . import parsecheck

RULE = ("texts = toml-test corpus + MCTomlGen texts (every spelling of every abstract scalar in 6 templates, container "
        "layouts, decor slots with whitespace/comments/CRLF/BOM/missing final newline, mutants) + TomlDoc behaviours "
        "(all statement orderings); for every text the specification accepts: print(parse(text)) must be valid, decode "
        "to the same tree, keep every comment, be a fixed point, and equal Norm(text) unless dotted keys are interleaved. "
        "distinct_nontrivial = distinct texts of >= 3 code points")
WANT = {"rt-panic", "rt-invalid", "rt-data", "rt-comment", "rt-fixpoint", "rt-exact", "rt-respelled"}


def run(ctx):
    parsecheck.run_parse(ctx, {"corpus", "mutants", "gen", "doc"}, WANT, subcmd="roundtrip-events")
    return ctx.finish("model_checking", RULE)


def replay(ctx, path):
    return parsecheck.replay_parse(ctx, path, WANT, subcmd="roundtrip-events")
