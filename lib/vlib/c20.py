from . import parsecheck, core

RULE = ("the walker contract is given twice in Walk.tla (recursive Expected and a stack machine) and TLC checks that they agree on "
        "trees with every container kind nested in every other; for every accepted text (corpus, generator documents incl. values "
        "nested in arrays in inline tables, span-directed documents, TomlDoc behaviours with dotted, implicit and array-of-tables "
        "tables) the callback logs of a counting Visit and a counting VisitMut (all other methods default) must equal "
        "Expected(spec tree) - every node exactly once, document order - and a VisitMut rewriting every integer / string / float "
        "must yield a document whose tree is the spec tree with exactly those leaves replaced. "
        "distinct_nontrivial = distinct texts of >= 3 code points")
WANT = {"visit-panic", "visit-log", "visit-mut-changed", "visit-rewrite"}
WALK_CFG = """SPECIFICATION WSpec
CONSTANTS
  TreeUnderWalk <- TheTree
  TreeNo = %d
INVARIANT WalkMatchesExpected
CHECK_DEADLOCK FALSE
"""


def run(ctx):
    for n in range(1, 6):
        ctx.tlc("MCWalk", WALK_CFG % n, tag="walk%d" % n, workers=2, timeout=300)
    parsecheck.run_parse(ctx, {"corpus", "gen", "spandocs", "doc"}, WANT, subcmd="visit-events")
    return ctx.finish("model_checking", RULE)


def replay(ctx, path):
    return parsecheck.replay_parse(ctx, path, WANT, subcmd="visit-events")
