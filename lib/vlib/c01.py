from . import parsecheck

RULE = ("texts = toml-test corpus + seeded single/double-edit mutants (one symbol per ABNF class boundary) + every "
        "behaviour of the TomlDoc model rendered with varying key spellings; one parse event per text with the verdict "
        "of DocumentMut, ImDocument, toml::from_str, toml_edit::de::from_str/from_slice; TLC evaluates ParseDocument on "
        "every text. distinct_nontrivial = distinct texts of >= 3 code points")


def run(ctx):
    parsecheck.run_parse(ctx, {"corpus", "mutants", "bytes", "gen", "dates", "doc"}, {"verdict", "panic"})
    # the value, key and key-path entry points on the value texts of the generator
    h = ctx.build(features=("preserve_order",))
    vp = parsecheck.value_texts(ctx, ctx.path("gen.ndjson"))
    parsecheck.process_inputs(ctx, h, [("values", vp)], {"value-verdict", "key-verdict", "keypath-verdict"}, "value-events")
    return ctx.finish("model_checking", RULE)


def replay(ctx, path):
    return parsecheck.replay_parse(ctx, path, {"verdict", "panic"})
