from . import parsecheck, core

RULE = ("rejected texts = invalid corpus files + seeded corpus mutants + TLC-generated single-symbol mutations (every "
        "position, every class representative, truncations) of generator texts, incl. multi-byte characters before the error "
        "and errors at end of input with and without a final newline; for toml_edit::TomlError and toml::de::Error: message "
        "non-empty, span in bounds on character boundaries, rendering does not panic and its line/column equal "
        "LineCol(text, span.start) computed by TLC; type-mismatch errors (ten target types x generator documents) carry the "
        "offending value's span. distinct_nontrivial = distinct rejected texts")
WANT = {"err-empty-message-at-control-or-eof", "err-empty-message", "err-render-panic", "err-span", "err-linecol"}


def run(ctx):
    parsecheck.run_parse(ctx, {"corpus", "mutants", "gen"}, WANT, subcmd="err-events")
    # located type errors ride on the span events of the `k = value` generator documents
    h = ctx.build(features=("preserve_order",))
    parsecheck.run_more(ctx, h, {"gen", "spandocs"}, {"err-type-location", "err-keypath-location"}, "span-events")
    return ctx.finish("model_checking", RULE)


def replay(ctx, path):
    import json
    rp = json.load(open(path))
    sub = "span-events" if rp.get("what") in ("err-type-location", "err-keypath-location") else "err-events"
    return parsecheck.replay_parse(ctx, path, WANT | {"err-type-location", "err-keypath-location"}, subcmd=sub)
