from . import parsecheck

RULE = ("every sequence of <= MaxN statements over all key paths of length <= MaxPath on {a,b} ([p], [[p]], p = 1, "
        "p = [], p = {} and richer inline shapes), enumerated exhaustively by TLC on the TomlDoc state machine "
        "(NoOverwrite checked as an action property), each behaviour rendered to text and parsed by every front end; "
        "verdict and merged tree validated by TLC. distinct_nontrivial = distinct texts")


def run(ctx):
    parsecheck.run_parse(ctx, {"doc"}, {"verdict", "tree", "panic"})
    return ctx.finish("model_checking", RULE, exhaustive=True)


def replay(ctx, path):
    return parsecheck.replay_parse(ctx, path, {"verdict", "tree", "panic"})
