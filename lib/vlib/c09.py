from . import parsecheck

RULE = ("every sequence of <= MaxN statements over all key paths of length <= MaxPath on {a,b} ([p], [[p]], p = 1, "
        "p = [], p = {} and richer inline shapes), enumerated exhaustively by TLC on the TomlDoc state machine "
        "(NoOverwrite checked as an action property), each behaviour rendered to text and parsed by every front end; "
        "verdict and merged tree validated by TLC. distinct_nontrivial = distinct texts")


REFINE_CFG = """SPECIFICATION Spec
CONSTANTS
  Stmts <- MCStmts
  MaxN = %d
  MaxPath = 3
  EMIT = FALSE
  RICH = %d
  UNIFORM = TRUE
  NARROW = %d
  INLINE = FALSE
INVARIANT Refines
CHECK_DEADLOCK FALSE
"""


def run(ctx):
    # the implementation-shaped model of parser/state.rs refines the contract (specification-level check)
    for (n, rich, narrow, tag) in ([(3, 0, 0, "wide"), (5, 0, 1, "narrow"), (5, 0, 2, "narrow2")] if ctx.quick else
                                   [(3, 1, 0, "wide"), (6, 0, 1, "narrow"), (6, 0, 2, "narrow2")]):
        r = ctx.tlc("MCParseState", REFINE_CFG % (n, rich, narrow), tag="refine-" + tag, workers=8, timeout=7200)
        ctx.extra.setdefault("refinement_ParseStateImpl_to_TomlDoc", []).append({"scope": tag, "MaxN": n, "distinct_states": r.distinct})
    parsecheck.run_parse(ctx, {"doc"}, {"verdict", "tree", "panic"})
    # model drift: flags predicted by ParseStateImpl vs Table::is_implicit / is_dotted / position (reported, never a violation)
    import os
    from . import core
    h = ctx.build(features=("preserve_order",))
    drift = 0
    compared = 0
    for f in sorted(os.listdir(ctx.work)):
        if f.startswith("doc-narrow") and f.endswith(".ndjson") or f.startswith("doc-n2p3r") and f.endswith(".ndjson"):
            evp = ctx.path(f[:-7] + ".flags.ev")
            ctx.harness(h, ["flags-events", "--in", ctx.path(f), "--out", evp])
            before = ctx.validated
            mism, _, n = ctx.validate(evp)
            ctx.validated = before          # drift events are not property evidence
            compared += n
            drift += len(mism)
            os.remove(evp)
    ctx.extra["model_drift"] = {"documents_compared": compared, "flag_or_verdict_mismatches": drift}
    core.log("model drift (ParseStateImpl vs parser flags): %d mismatches on %d documents" % (drift, compared))
    return ctx.finish("model_checking", RULE, exhaustive=True)


def replay(ctx, path):
    return parsecheck.replay_parse(ctx, path, {"verdict", "tree", "panic"})
