"""C07 / C13 / C17: serde routes validated against SerdeModel.Enc."""
import os, json, collections
from . import core, apicheck
from .core import log

ENC = {"serde-enc-panic", "serde-enc-unsupported-accepted", "serde-enc-unexpected-error", "serde-enc-text"}
PRIMARY_DEC = {"toml::from_str", "from_str(to_string_pretty)", "from_str(toml_edit to_string)"}


def known_for(ctx, m):
    d = m["detail"] if isinstance(m["detail"], dict) else {}
    for ent in ctx.known["findings"]:
        if ent.get("status") != "known" or ctx.prop not in ent.get("properties", []):
            continue
        rule = ent.get("match", {})
        if rule.get("kind") != "serde" or m["what"] not in rule["what"]:
            continue
        if "routes" in rule and d.get("route") not in rule["routes"]:
            continue
        if "types" in rule and m["event"]["ty"] not in rule["types"]:
            continue
        if rule.get("sdm_contains") and rule["sdm_contains"] not in json.dumps(m["event"]["sdm"]):
            continue
        return ent["id"]
    return None


def run_serde(ctx, belongs, builds=(("preserve_order",),)):
    """belongs(mismatch) -> bool: is this mismatch a violation of ctx.prop"""
    n_per = 60 if ctx.quick else 3000
    for feats in builds:
        h = ctx.build(features=feats)
        evp = ctx.path("serde-%s.ev" % ("po" if feats else "plain"))
        ctx.harness(h, ["serde-events", "--seed", ctx.seed, "--n", n_per, "--out", evp])
        mism, _, n = ctx.validate(evp, chunk=4000)
        for e in core.iter_ndjson(evp):
            ctx.nontrivial.add(json.dumps(e["sdm"], sort_keys=True))
            if len(ctx.samples) < 5 and e["ty"] in ("Opts", "Seqs", "E", "VecOpt") and len(json.dumps(e["sdm"])) < 1500:
                ctx.sample({"type": e["ty"], "routes": [[r["route"], r["res"], core.uncps(r["text"])[:200]] for r in e["enc"][:2]]})
        cls = collections.Counter()
        other = 0
        for m in mism:
            if not belongs(m):
                other += 1
                continue
            d = m["detail"] if isinstance(m["detail"], dict) else {"detail": m["detail"]}
            cls[(m["what"], m["event"]["ty"], d.get("route"))] += 1
            ctx.report("%s %s %s" % (m["what"], m["event"]["id"], d.get("route", "")),
                       {"kind": "serde", "event": {"ty": m["event"]["ty"], "sdm": m["event"]["sdm"], "id": m["event"]["id"]},
                        "what": m["what"], "detail": d, "features": list(feats)}, known_for(ctx, m))
        log("serde (%s): %d values validated, %d mismatches for this property, %d for others" % ("+".join(feats) or "default", n, sum(cls.values()), other))
        if cls:
            log("   classes: %s" % dict(cls))
        ctx.extra["mismatches_belonging_to_other_properties"] = ctx.extra.get("mismatches_belonging_to_other_properties", 0) + other
    ctx.evaluations = ctx.validated


def replay(ctx, path, belongs):
    # values are regenerated from the seed: the replay re-runs the generator and looks for the recorded shape
    rp = json.load(open(path))
    h = ctx.build(features=tuple(rp.get("features", ["preserve_order"])))
    evp = ctx.path("replay.ev")
    ctx.seed = rp.get("seed", ctx.seed)
    ctx.harness(h, ["serde-events", "--seed", ctx.seed, "--n", 60 if ctx.quick else 3000, "--out", evp])
    want = json.dumps(rp["event"]["sdm"], sort_keys=True)
    evs = [e for e in core.iter_ndjson(evp) if json.dumps(e["sdm"], sort_keys=True) == want]
    core.write_ndjson(evp, evs[:1])
    mism, _, _ = ctx.validate(evp)
    for m in mism:
        if belongs(m) and not known_for(ctx, m):
            ctx.report("replayed %s" % m["what"], {"kind": "serde", "event": rp["event"], "what": m["what"], "detail": m["detail"]}, None)
    for pth, s in ctx.violations:
        print("VIOLATION property=%s replay=%s  # %s" % (ctx.prop, pth, s))
    return 1 if ctx.violations else 0
