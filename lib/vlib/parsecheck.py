"""C01 / C02 / C09: parser verdicts and decoded trees against TomlLex + TomlDef.

Direction G: TLC (MCTomlDoc, MCTomlGen) chooses the texts; direction V: the harness chooses them (corpus,
seeded mutants).  Either way the harness records one `parse` event per text with the verdict and projected
tree of every front end, and TLC (Validate.tla) judges every event."""
import os, json
from . import core
from .core import log

DOC_CFG = """SPECIFICATION Spec
CONSTANTS
  Stmts <- MCStmts
  MaxN = %d
  MaxPath = %d
  EMIT = TRUE
  RICH = %d
  UNIFORM = %s
  NARROW = %d
  INLINE = %s
INVARIANT WellFormed
INVARIANT GenLexAgree
INVARIANT Emit
PROPERTY NoOverwriteProp
PROPERTY RejectIsAtomic
CHECK_DEADLOCK FALSE
"""


def label_selfcheck(ctx, corpus_path):
    """The specification is tested against the labels of toml-test before it judges the code."""
    recs = [r for r in core.iter_ndjson(corpus_path) if "text" in r]
    evs = [{"ev": "label", "id": r["id"], "lab": r["lab"], "text": r["text"]} for r in recs]
    p = ctx.path("labels.ev")
    core.write_ndjson(p, evs)
    validated_before = ctx.validated
    mism, _, n = ctx.validate(p)
    ctx.validated = validated_before  # labels are not implementation traces
    if mism:
        raise core.ToolError("specification disagrees with toml-test labels: %s" % json.dumps(mism[0])[:500])
    ctx.extra["spec_selfcheck_corpus_labels"] = n
    os.remove(p)


def gen_doc_cases(ctx, maxn, maxpath, rich, tag, uniform=False, narrow=0, inline=False):
    """MCTomlDoc: model-check the definition machine and emit one text per behaviour."""
    texts = []
    r = ctx.tlc("MCTomlDoc", DOC_CFG % (maxn, maxpath, int(rich), "TRUE" if uniform else "FALSE", int(narrow), "TRUE" if inline else "FALSE"), tag=tag, workers=8,
                timeout=7200, on_json=lambda o: texts.append(o))
    log("MCTomlDoc %s: %d distinct states, %d texts, %.1fs" % (tag, r.distinct, len(texts), r.wall))
    if len(texts) != r.distinct:
        raise core.ToolError("MCTomlDoc emitted %d texts for %d states" % (len(texts), r.distinct))
    recs = [{"id": "%s#%d" % (tag, i), "text": t["text"]} for i, t in enumerate(texts)]
    ctx.extra.setdefault("tomldoc_models", []).append(
        {"tag": tag, "MaxN": maxn, "MaxPath": maxpath, "rich": rich, "distinct_states": r.distinct, "behaviours": len(texts)})
    return recs


GEN_CFG = """SPECIFICATION Spec
CONSTANTS
  MUT = %s
  MUTMOD = %d
  MUTLEN = %d
  MUTSEED = %d
INVARIANT GenLexAgree
INVARIANT KeyAgree
INVARIANT LayoutAgree
INVARIANT Emit
CHECK_DEADLOCK FALSE
"""


def gen_lex_cases(ctx, mut, mutmod, mutlen, tag):
    """MCTomlGen: every spelling of every abstract value in document templates (+ mutants); the model also
    checks the generator against the recogniser."""
    texts = []
    r = ctx.tlc("MCTomlGen", GEN_CFG % ("TRUE" if mut else "FALSE", mutmod, mutlen, ctx.seed % 1000), tag=tag, workers=8, timeout=7200,
                on_json=lambda o: texts.append(o))
    kinds = {}
    for t in texts:
        kinds[t["kind"]] = kinds.get(t["kind"], 0) + 1
    log("MCTomlGen %s: %d distinct states, %d texts %s, %.1fs" % (tag, r.distinct, len(texts), kinds, r.wall))
    ctx.extra.setdefault("tomlgen_models", []).append({"tag": tag, "distinct_states": r.distinct, "texts_by_kind": kinds})
    return [{"id": "%s#%s%d" % (tag, t["kind"], i), "text": t["text"]} for i, t in enumerate(texts)]


SPANDOC_CFG = """SPECIFICATION Spec
INVARIANT Agree
INVARIANT Emit
CHECK_DEADLOCK FALSE
"""


def inputs(ctx, h, which, selfcheck=True):
    """Build the input texts of this run; returns list of (tag, path-to-texts.ndjson)."""
    out = []
    corpus = ctx.path("corpus.ndjson")
    ctx.harness(h, ["gen-corpus", "--dir", os.path.join(core.ROOT, "corpus"), "--out", corpus])
    if selfcheck:
        label_selfcheck(ctx, corpus)
    if "spandocs" in which:
        from . import apicheck
        recs = apicheck.tlc_texts(ctx, "MCSpanDocs", SPANDOC_CFG, "spandocs")
        p = ctx.path("spandocs.ndjson")
        core.write_ndjson(p, recs)
        out.append(("spandocs", p))
    if "corpus" in which:
        out.append(("corpus", corpus))
    if "mutants" in which:
        mp = ctx.path("mutants.ndjson")
        per, maxlen = (30, 150) if ctx.quick else (400, 400)
        ctx.harness(h, ["gen-mutants", "--in", corpus, "--per", per, "--seed", ctx.seed, "--maxlen", maxlen, "--out", mp])
        out.append(("mutants", mp))
    if "gen" in which:
        tag = "gen"
        recs = gen_lex_cases(ctx, True, 401 if ctx.quick else 151, 22 if ctx.quick else 48, tag)
        p = ctx.path(tag + ".ndjson")
        core.write_ndjson(p, recs)
        out.append((tag, p))
    if "bytes" in which:
        # byte strings for the slice entry point: damaged encodings (truncated sequences, overlongs, surrogates, > U+10FFFF)
        bp = ctx.path("bytes.ndjson")
        ctx.harness(h, ["gen-damaged", "--in", corpus, "--out", bp])
        out.append(("bytes", bp))
    if "dates" in which:
        # the date-time edge family of MCDateGen as document values (every month x day edge, field edges)
        from . import apicheck, c12
        recs = apicheck.tlc_texts(ctx, "MCDateGen", c12.CFG % 0, "dategen")
        recs = [{"id": r["id"], "text": [107, 32, 61, 32] + r["text"] + [10]} for r in recs]
        p = ctx.path("dates.ndjson")
        core.write_ndjson(p, recs)
        out.append(("dates", p))
    if "doc" in which:
        if ctx.prop in ("C14", "C15", "C20", "C04"):
            models = [(3, 2, 1, "doc-n3p2"), (2, 3, 3, "doc-n2p3r")] if ctx.quick else [(3, 3, 2, "doc-n3p3r"), (2, 3, 3, "doc-n2p3x")]
            for (n, pth, rich, tag) in models:
                recs = gen_doc_cases(ctx, n, pth, rich, tag)
                p = ctx.path(tag + ".ndjson")
                core.write_ndjson(p, recs)
                out.append((tag, p))
            if ctx.prop == "C20":
                # longer sequences over three keys: orders of sibling tables around a promoted super-table
                tag = "doc-narrow-n%d" % (5 if ctx.quick else 6)
                recs = gen_doc_cases(ctx, 5 if ctx.quick else 6, 3, 0, tag, False, narrow=1)
                p = ctx.path(tag + ".ndjson")
                core.write_ndjson(p, recs)
                out.append((tag, p))
            return out
        if ctx.prop == "C09":
            models = [(3, 3, 0, "doc-n3p3v0"), (2, 3, 3, "doc-n2p3r")] if ctx.quick else \
                     [(4, 2, 1, "doc-n4p2"), (3, 3, 2, "doc-n3p3r"), (2, 3, 3, "doc-n2p3x")]
        else:
            models = [(3, 2, 1, "doc-n3p2"), (2, 3, 3, "doc-n2p3r")] if ctx.quick else \
                     [(3, 3, 2, "doc-n3p3r"), (2, 3, 3, "doc-n2p3x")]
        if ctx.prop == "C03":   # repeated key segments spelled identically: exact equality must hold
            models = [m + (True,) for m in models] + [models[-1]]
        for m in models:
            (n, pth, rich, tag) = m[:4]
            uniform = len(m) > 4
            tag = tag + ("u" if uniform else "")
            recs = gen_doc_cases(ctx, n, pth, rich, tag, uniform)
            p = ctx.path(tag + ".ndjson")
            core.write_ndjson(p, recs)
            out.append((tag, p))
        # deep-narrow family: longer sequences over chain headers and three keys
        for uniform in ([True, False] if ctx.prop == "C03" else [False]):
            n = 5 if ctx.quick else 6
            tag = "doc-narrow-n%d%s" % (n, "u" if uniform else "")
            recs = gen_doc_cases(ctx, n, 3, 0, tag, uniform, narrow=1)
            p = ctx.path(tag + ".ndjson")
            core.write_ndjson(p, recs)
            out.append((tag, p))
        if ctx.prop in ("C09", "C01"):
            tag = "doc-narrow2-n%d" % (5 if ctx.quick else 6)
            recs = gen_doc_cases(ctx, 5 if ctx.quick else 6, 3, 0, tag, False, narrow=2)
            p = ctx.path(tag + ".ndjson")
            core.write_ndjson(p, recs)
            out.append((tag, p))
        # inline tables: the same rules in a closed world
        for uniform in ([True, False] if ctx.prop == "C03" else [False]):
            for (n, pth) in ([(2, 3), (3, 2)] if ctx.quick else [(3, 3), (4, 2)]):
                tag = "doc-inline-n%dp%d%s" % (n, pth, "u" if uniform else "")
                recs = gen_doc_cases(ctx, n, pth, 2, tag, uniform, inline=True)
                p = ctx.path(tag + ".ndjson")
                core.write_ndjson(p, recs)
                out.append((tag, p))
    return out


def value_texts(ctx, gen_path):
    """value / key texts cut out of the generator's `k = <value>` documents (and their mutants)"""
    pre = [107, 32, 61, 32]
    out = []
    seen = set()
    for r in core.iter_ndjson(gen_path):
        t = r["text"]
        if len(t) > 5 and t[:4] == pre and t[-1] == 10:
            v = tuple(t[4:-1])
            if v not in seen:
                seen.add(v)
                out.append({"id": r["id"] + "/value", "text": list(v)})
    p = ctx.path("values.ndjson")
    core.write_ndjson(p, out)
    return p


def classify_known(ctx, m):
    """Match a mismatch against the `known` entries of known_findings.json (narrow structural rules)."""
    for ent in ctx.known["findings"]:
        if ent.get("status") != "known" or ctx.prop not in ent.get("properties", [ent.get("property")]):
            continue
        rule = ent.get("match", {})
        if rule.get("kind") == "what" and m["what"] == rule.get("what"):
            return ent["id"]
        if rule.get("kind") == "parse-verdict" and m["what"] == "verdict":
            d = m["detail"]
            if d.get("spec") == rule.get("spec") and d.get("impl") == rule.get("impl") and d.get("why") == rule.get("why"):
                text = core.uncps(m["event"].get("text", []))
                import re
                if re.search(rule["text_regex"], text):
                    return ent["id"]
    return None


def run_parse(ctx, which, want, subcmd="parse-events", features=("preserve_order",)):
    """want: set of mismatch kinds that are violations of ctx.prop ("verdict", "tree", "panic")."""
    h = ctx.build(features=features)
    ins = inputs(ctx, h, which)
    process_inputs(ctx, h, ins, want, subcmd)


def run_more(ctx, h, which, want, subcmd):
    """a second pass with another recorder over already generated inputs (files are reused when present)"""
    ins = []
    for w in which:
        for f in sorted(os.listdir(ctx.work)):
            if f.endswith(".ndjson") and (f.startswith(w) or (w == "doc" and f.startswith("doc-"))):
                ins.append((f[:-7] + "+" + subcmd, os.path.join(ctx.work, f)))
    have = {w for w in which if any(t.startswith(w) for t, _ in ins)}
    missing = set(which) - have
    if missing:
        ins += [(t + "+" + subcmd, p) for t, p in inputs(ctx, h, missing, selfcheck=False)]
    process_inputs(ctx, h, ins, want, subcmd)


def process_inputs(ctx, h, ins, want, subcmd):
    total_u1 = 0
    other = 0
    accepted = 0
    for tag, path in ins:
        evp = ctx.path(tag + ".ev")
        extra = []
        if subcmd == "span-events" and not tag.startswith("spandocs"):
            extra = ["--typed-mod", 7 if ctx.quick else 2]
        ctx.harness(h, [subcmd, "--in", path, "--out", evp] + extra)
        mism, u1, n = ctx.validate(evp)
        total_u1 += len(u1)
        # coverage: distinct non-trivial = distinct texts with at least one statement-like line
        for e in core.iter_ndjson(evp):
            t = e.get("text")
            if t is None:
                continue
            rs = e.get("r", [])
            if any(r.get("res") == "ok" for r in rs) or e.get("res") == "ok":
                accepted += 1
            if len(t) >= 3:
                ctx.nontrivial.add(hash(tuple(t)))
            if len(ctx.samples) < 6 and len(t) < 80 and (len(ctx.samples) % 2 == 0 or any(r.get("res") == "ok" for r in rs)):
                ctx.sample({"input": tag, "text": core.uncps(t), "impl": [[r.get("fe"), r.get("res", r.get("span"))] for r in (rs or e.get("errs", []))] or e.get("res")})
        log("%s: %d events validated, %d mismatches, %d in class U1" % (tag, n, len(mism), len(u1)))
        for m in mism:
            if m["what"] not in want:
                other += 1
                continue
            text = core.uncps(m["event"].get("text", []))
            summary = "%s %s: %s" % (m["what"], m["event"]["id"], json.dumps(text)[:120])
            ctx.report(summary, {"kind": "parse", "event": m["event"], "what": m["what"], "detail": m["detail"],
                                 "text": text}, classify_known(ctx, m))
        os.remove(evp)
    ctx.extra["skipped_u1"] = ctx.extra.get("skipped_u1", 0) + total_u1
    ctx.extra["mismatches_belonging_to_other_properties"] = ctx.extra.get("mismatches_belonging_to_other_properties", 0) + other
    ctx.extra["texts_accepted_by_some_front_end"] = ctx.extra.get("texts_accepted_by_some_front_end", 0) + accepted
    ctx.evaluations = ctx.validated


def replay_parse(ctx, path, want, subcmd="parse-events"):
    rp = json.load(open(path))
    h = ctx.build(features=("preserve_order",))
    ev = rp["event"]
    tp = ctx.path("replay.ndjson")
    rec = {"id": ev["id"]}
    if "bytes" in ev:
        rec["bytes"] = ev["bytes"]
    else:
        rec["text"] = ev["text"]
    core.write_ndjson(tp, [rec])
    evp = ctx.path("replay.ev")
    ctx.harness(h, [subcmd, "--in", tp, "--out", evp])
    mism, u1, n = ctx.validate(evp)
    for m in mism:
        if m["what"] in want and not classify_known(ctx, m):
            ctx.report("%s %s" % (m["what"], ev["id"]), {"kind": "parse", "event": m["event"], "what": m["what"],
                                                           "detail": m["detail"]}, None)
    for pth, s in ctx.violations:
        print("VIOLATION property=%s replay=%s  # %s" % (ctx.prop, pth, s))
    return 1 if ctx.violations else 0
