from . import serdecheck

RULE = ("values of a family of 16 derive(Serialize, Deserialize) types covering every serde shape TOML supports (structs, maps "
        "with string and unit-variant keys, sequences, tuples, newtypes, optional fields, all four kinds of enum variant, "
        "every integer width, f32/f64, bool, char, strings, date-times, nested: enums inside sequences inside maps, struct "
        "variants inside mixed arrays, optional tables, empty containers) plus the documented unsupported shapes, generated "
        "from a seed with adversarial leaves; each value's serde-data-model shape is captured and TLC evaluates "
        "SerdeModel.Enc on it: for each of the seven serializers the outcome must be an error exactly for unsupported shapes, "
        "otherwise valid TOML denoting Enc(v), and toml::from_str must give back an equal value. "
        "distinct_nontrivial = distinct value shapes")


def belongs(m):
    if m["what"] in serdecheck.ENC:
        return True
    return m["what"] == "serde-dec" and m["detail"].get("route") in serdecheck.PRIMARY_DEC


def run(ctx):
    serdecheck.run_serde(ctx, belongs)
    return ctx.finish("model_checking", RULE)


def replay(ctx, path):
    return serdecheck.replay(ctx, path, belongs)
