------------------------------- MODULE KeyImpl -------------------------------
(***************************************************************************)
(* Implementation-shaped model of how key paths are stored and printed     *)
(* (parser/key.rs: the blanks around every segment become its "dotted      *)
(* decor", those before the first and after the last segment the "leaf     *)
(* decor" of the last key; parser/state.rs: a table keeps the key of the   *)
(* statement that created it, a header's own key replaces the key of an    *)
(* implicitly created table; encode.rs: a header or a dotted pair is        *)
(* printed from the keys stored along its path).                           *)
(*                                                                         *)
(* Consequence (known finding F08): when a document spells a table's key   *)
(* more than once, every later spelling is printed like the first one.     *)
(* This module predicts the text of every key region of the reprint, so    *)
(* that exactly that behaviour - and nothing near it - is recognised.      *)
(***************************************************************************)
EXTENDS EditCheck

IsBlank(c) == c = 32 \/ c = 9
RECURSIVE BlanksBack(_, _), BlanksFwd(_, _)
BlanksBack(t, i) == IF i >= 1 /\ IsBlank(t[i]) THEN BlanksBack(t, i - 1) ELSE i        \* last non-blank position at or before i (0 if none)
BlanksFwd(t, i) == IF i <= Len(t) /\ IsBlank(t[i]) THEN BlanksFwd(t, i + 1) ELSE i     \* first non-blank position at or after i

\* a key as the parser stores it, from the span of its token in the text:
\*   raw = the token; dpre / dsuf = the blanks towards a neighbouring dot ("" at the ends of the path, whose blanks
\*   went to the leaf decor of the last key)
StoredKey(t, sp) ==
  LET b == BlanksBack(t, sp[1] - 1)
      f == BlanksFwd(t, sp[2])
      first == At(t, b) # 46
      last == At(t, f) # 46
  IN [raw |-> SubSeq(t, sp[1], sp[2] - 1),
      dpre |-> IF first THEN <<>> ELSE SubSeq(t, b + 1, sp[1] - 1),
      dsuf |-> IF last THEN <<>> ELSE SubSeq(t, sp[2], f - 1),
      \* blanks around the token as they stand (used for the leaf decor of a last key)
      pre |-> SubSeq(t, b + 1, sp[1] - 1), suf |-> SubSeq(t, sp[2], f - 1)]

\* the entry that position `pos` (keys and array-of-tables indices, EditCheck.StmtPos) names in the tree: its ksp
RECURSIVE KspAt(_, _)
KspAt(tr, pos) ==
  LET st == Head(pos) IN
  IF IsIdx(st) THEN KspAt(tr.v[st[2] + 1], Tail(pos))
  ELSE LET e == tr.v[KeyPos(tr.v, st)] IN
       IF Len(pos) = 1 THEN e.ksp
       ELSE KspAt(e.val, Tail(pos))

\* positions of the proper prefixes of a statement's path: for a pair they continue from the section it stands in
\* pos = full position of the statement's last segment (with indices); k = number of key segments of the statement
RECURSIVE KeyPrefixes(_, _, _)
\* all prefixes of pos that end in a key step, in order
KeyPrefixes(pos, j, acc) == IF j > Len(pos) THEN acc
                            ELSE KeyPrefixes(pos, j + 1, IF IsIdx(pos[j]) THEN acc ELSE Append(acc, SubSeq(pos, 1, j)))

\* the statement (an [[array header]]) whose last key token is `sp`: the blanks inside its brackets are the leaf decor
CreatorOf(stmts, sp) == CHOOSE i \in 1..Len(stmts) : stmts[i].path[Len(stmts[i].path)].sp = sp

\* segments j..m of a path, printed from the keys stored in the tree
RECURSIVE SegsText(_, _, _, _, _)
SegsText(t, tr, mine, j, m) ==
  IF j > m THEN <<>>
  ELSE LET k == StoredKey(t, KspAt(tr, mine[j])) IN
       (IF j > 1 THEN <<46>> \o k.dpre ELSE <<>>) \o k.raw \o k.dsuf \o SegsText(t, tr, mine, j + 1, m)

\* predicted text of the key region of statement i of text t (p = its parse: stmts and tree; pos = StmtPos(p.stmts))
PredictedRegion(t, p, pos, i) ==
  LET s == p.stmts[i]
      n == Len(s.path)
      prefs == KeyPrefixes(pos[i], 1, <<>>)
      mine == SubSeq(prefs, Len(prefs) - n + 1, Len(prefs))      \* the positions of this statement's own segments
      own == StoredKey(t, s.path[n].sp)
      head == SegsText(t, p.tree, mine, 1, n - 1)
  IN CASE s.kind = "kv" -> IF n = 1 THEN own.raw ELSE head \o <<46>> \o own.dpre \o own.raw
       \* a header's last key is its own (it replaces the key of an implicitly created table)
       [] s.kind = "std" -> StoredKey(t, s.path[1].sp).pre
                            \o (IF n = 1 THEN own.raw ELSE head \o <<46>> \o own.dpre \o own.raw) \o own.suf
       \* every [[header]] of an array of tables is printed from the key of the first one
       [] s.kind = "aot" ->
            LET ksp == KspAt(p.tree, mine[n])
                k == StoredKey(t, ksp)
                c == p.stmts[CreatorOf(p.stmts, ksp)]
            IN StoredKey(t, c.path[1].sp).pre
               \o (IF n = 1 THEN k.raw ELSE head \o <<46>> \o k.dpre \o k.raw) \o k.suf

\* ---- inside inline tables: the same storage, in a closed world ----
\* position (key steps only) of every prefix of `names`
NamePrefixes(names) == [j \in 1..Len(names) |-> SubSeq(names, 1, j)]
\* predicted text of the key region of pair j of the inline table v (text t): leading segments from the keys the
\* dotted tables inside v keep, the last one as written
PredictedInlineRegion(t, v, j) ==
  LET names == v.kr[j].names
      n == Len(names)
      own == StoredKey(t, v.kr[j].last)
  IN IF n = 1 THEN own.raw ELSE SegsText(t, v, NamePrefixes(names), 1, n - 1) \o <<46>> \o own.dpre \o own.raw
\* all inline tables of a value, paired positionally between source and reprint: <<source table, reprinted table>>
RECURSIVE InlinePairsV(_, _), InlinePairsSeq(_, _), InlinePairsEntries(_, _)
InlinePairsV(a, b) ==
  IF a.k # b.k THEN {<<a, b, FALSE>>}
  ELSE CASE a.k = "t" -> {<<a, b, Len(a.kr) = Len(b.kr) /\ Len(a.v) = Len(b.v)>>} \cup InlinePairsEntries(a.v, b.v)
         [] a.k = "a" -> InlinePairsSeq(a.v, b.v)
         [] OTHER -> {}
InlinePairsSeq(as, bs) == IF as = <<>> \/ bs = <<>> THEN (IF as = bs THEN {} ELSE {<<[k |-> "x"], [k |-> "y"], FALSE>>})
                          ELSE InlinePairsV(Head(as), Head(bs)) \cup InlinePairsSeq(Tail(as), Tail(bs))
InlinePairsEntries(as, bs) == IF as = <<>> \/ bs = <<>> THEN (IF as = bs THEN {} ELSE {<<[k |-> "x"], [k |-> "y"], FALSE>>})
                              ELSE InlinePairsV(Head(as).val, Head(bs).val) \cup InlinePairsEntries(Tail(as), Tail(bs))
\* every inline table of the reprint spells its key regions as predicted from the source
InlineRegionsAsPredicted(n, sv, out, ov) ==
  \A pr \in InlinePairsV(sv, ov) :
    /\ pr[3]
    /\ pr[1].k = "t" => \A j \in 1..Len(pr[1].kr) :
         SubSeq(out, pr[2].kr[j].reg[1], pr[2].kr[j].reg[2] - 1) = PredictedInlineRegion(n, pr[1], j)

RegionText(t, s) == LET r == KeyRegion(t, s) IN SubSeq(t, r[1], r[2] - 1)
\* the reprint `out` (parsed as q) spells every key region as predicted from the source n (parsed as pn)
RegionsAsPredicted(n, pn, out, q) ==
  /\ Len(pn.stmts) = Len(q.stmts)
  /\ LET pos == StmtPos(pn.stmts) IN
     \A i \in 1..Len(pn.stmts) :
       /\ RegionText(out, q.stmts[i]) = PredictedRegion(n, pn, pos, i)
       /\ pn.stmts[i].kind = "kv" => InlineRegionsAsPredicted(n, pn.stmts[i].val, out, q.stmts[i].val)
=============================================================================
