------------------------------- MODULE MCWalk -------------------------------
(* Model-checks the walker machine of Walk.tla against Expected on every    *)
(* tree the TomlDoc machine can build in a small scope: the stack machine   *)
(* and the recursive definition are two formulations of one contract.       *)
EXTENDS Walk, TLC
CONSTANT TreeNo
One == [k |-> "i", neg |-> FALSE, d |-> <<1>>, sp |-> <<5, 6>>]
Str == [k |-> "s", v |-> <<97>>, sp |-> <<5, 8>>]
E(k, v) == Entry(k, v, FALSE, NoSpan)
Inl(es) == [k |-> "t", v |-> es, sp |-> <<1, 9>>, kr |-> <<>>]
Arr(vs) == [k |-> "a", v |-> vs, sp |-> <<1, 9>>]
Tbl(es) == VT(es, NoSpan)
Aot(ts) == VA(ts, NoSpan)
Trees == <<
  Tbl(<<>>),
  Tbl(<<E(<<97>>, One), E(<<98>>, Str)>>),
  Tbl(<<E(<<97>>, Tbl(<<E(<<98>>, One)>>)), E(<<99>>, Arr(<<One, Inl(<<E(<<120>>, Str)>>), Arr(<<>>)>>))>>),
  Tbl(<<E(<<97>>, Aot(<<Tbl(<<E(<<98>>, One)>>), Tbl(<<E(<<98>>, Inl(<<E(<<99>>, Inl(<<E(<<100>>, One)>>))>>))>>)>>)), E(<<122>>, One)>>),
  Tbl(<<E(<<97>>, Inl(<<>>)), E(<<98>>, Arr(<<Inl(<<E(<<97>>, Arr(<<One, One>>))>>)>>)), E(<<99>>, Tbl(<<E(<<100>>, Tbl(<<>>))>>))>>)
>>
TheTree == Trees[TreeNo]
=============================================================================
