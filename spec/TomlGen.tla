------------------------------ MODULE TomlGen ------------------------------
(***************************************************************************)
(* Generator: abstract statements and values -> TOML text (a sequence of   *)
(* code points), parametrised by rendering choices.  Independent of the    *)
(* recogniser TomlLex; MC models check ParseDocument(Render(d)) = d.       *)
(***************************************************************************)
EXTENDS Chars, TomlDef

Str(s) == s   \* code point sequences are written as tuples of numbers

Cat(ss) == LET RECURSIVE C(_, _) C(q, acc) == IF q = <<>> THEN acc ELSE C(Tail(q), acc \o Head(q)) IN C(ss, <<>>)

RECURSIVE Join(_, _)
Join(ss, sep) == IF ss = <<>> THEN <<>>
                 ELSE IF Len(ss) = 1 THEN ss[1] ELSE ss[1] \o sep \o Join(Tail(ss), sep)

HexDigit(n) == IF n < 10 THEN 48 + n ELSE 87 + n
\* \uXXXX escape of a code point < 65536
EscU4(c) == <<92, 117, HexDigit(c \div 4096), HexDigit((c \div 256) % 16), HexDigit((c \div 16) % 16), HexDigit(c % 16)>>

\* one character inside a basic string, in the canonical (always valid) form
BasicChar(c) ==
  CASE c = 34 -> <<92, 34>>
    [] c = 92 -> <<92, 92>>
    [] c = 10 -> <<92, 110>>
    [] c = 13 -> <<92, 114>>
    [] c = 9 -> <<92, 116>>
    [] c = 8 -> <<92, 98>>
    [] c = 12 -> <<92, 102>>
    [] c < 32 \/ c = 127 -> EscU4(c)
    [] OTHER -> <<c>>

RECURSIVE BasicChars(_)
BasicChars(s) == IF s = <<>> THEN <<>> ELSE BasicChar(Head(s)) \o BasicChars(Tail(s))
BasicString(s) == <<34>> \o BasicChars(s) \o <<34>>

IsBareKey(s) == s # <<>> /\ \A i \in 1..Len(s) : IsBare(s[i])
IsLiteralOk(s) == \A i \in 1..Len(s) : LiteralChar(s[i])

\* key spelling: style 0 = bare if possible, 1 = basic, 2 = literal if possible
KeyText(s, style) ==
  IF style = 0 /\ IsBareKey(s) THEN s
  ELSE IF style = 2 /\ IsLiteralOk(s) THEN <<39>> \o s \o <<39>>
  ELSE BasicString(s)

\* path = <<key cps ...>>, styles = function from segment index to style, dotsp = text around dots
RECURSIVE PathText(_, _, _, _)
PathText(path, styles, dot, j) ==
  IF j > Len(path) THEN <<>>
  ELSE KeyText(path[j], styles[j]) \o (IF j < Len(path) THEN dot ELSE <<>>) \o PathText(path, styles, dot, j + 1)

RECURSIVE DigitChars(_)
DigitChars(d) == IF d = <<>> THEN <<>> ELSE <<48 + Head(d)>> \o DigitChars(Tail(d))

RECURSIVE NatText(_)
NatText(n) == IF n < 10 THEN <<48 + n>> ELSE NatText(n \div 10) \o <<48 + (n % 10)>>
Pad2(n) == IF n < 10 THEN <<48, 48 + n>> ELSE NatText(n)
Pad4(n) == IF n < 10 THEN <<48, 48, 48>> \o NatText(n) ELSE IF n < 100 THEN <<48, 48>> \o NatText(n)
           ELSE IF n < 1000 THEN <<48>> \o NatText(n) ELSE NatText(n)
RECURSIVE PadLeft(_, _)
PadLeft(s, n) == IF Len(s) >= n THEN s ELSE PadLeft(<<48>> \o s, n)

\* canonical text of a value (one fixed spelling; variants are produced by Spell* operators)
RECURSIVE ValueText(_), ElemsText(_), PairsText(_)
ValueText(v) ==
  CASE v.k = "s" -> BasicString(v.v)
    [] v.k = "i" -> (IF v.neg THEN <<45>> ELSE <<>>) \o DigitChars(v.d)
    [] v.k = "b" -> IF v.v THEN <<116, 114, 117, 101>> ELSE <<102, 97, 108, 115, 101>>
    [] v.k = "f" ->
         (IF v.neg THEN <<45>> ELSE <<>>) \o
         (CASE v.c = "inf" -> <<105, 110, 102>>
            [] v.c = "nan" -> <<110, 97, 110>>
            [] v.c = "zero" -> <<48, 46, 48>>
            [] OTHER -> <<48 + v.d[1], 46>> \o (IF Len(v.d) = 1 THEN <<48>> ELSE DigitChars(Tail(v.d)))
                        \o <<101>> \o (IF v.e < 0 THEN <<45>> \o NatText(0 - v.e) ELSE NatText(v.e)))
    [] v.k = "dt" ->
         (IF v.date # <<>> THEN Pad4(v.date[1]) \o <<45>> \o Pad2(v.date[2]) \o <<45>> \o Pad2(v.date[3]) ELSE <<>>)
         \o (IF v.date # <<>> /\ v.time # <<>> THEN <<84>> ELSE <<>>)
         \o (IF v.time # <<>> THEN Pad2(v.time[1]) \o <<58>> \o Pad2(v.time[2]) \o <<58>> \o Pad2(v.time[3])
                \o (IF v.time[4] # 0 THEN <<46>> \o PadLeft(NatText(v.time[4]), 9) ELSE <<>>) ELSE <<>>)
         \o (CASE v.off.t = "Z" -> <<90>>
               [] v.off.t = "O" -> LET a == IF v.off.m < 0 THEN 0 - v.off.m ELSE v.off.m IN
                                   (IF v.off.m < 0 THEN <<45>> ELSE <<43>>) \o Pad2(a \div 60) \o <<58>> \o Pad2(a % 60)
               [] OTHER -> <<>>)
    [] v.k = "a" -> <<91>> \o ElemsText(v.v) \o <<93>>
    [] v.k = "t" -> <<123>> \o PairsText(v.v) \o <<125>>
ElemsText(vs) == IF vs = <<>> THEN <<>>
                 ELSE ValueText(Head(vs)) \o (IF Len(vs) > 1 THEN <<44, 32>> ELSE <<>>) \o ElemsText(Tail(vs))
\* inline tables are rendered from their ordered tree: nested tables written as dotted keys is a
\* choice made by the caller (RenderInline); here every entry is written as key = value
PairsText(es) == IF es = <<>> THEN <<>>
                 ELSE KeyText(Head(es).key, 0) \o <<32, 61, 32>> \o ValueText(Head(es).val)
                      \o (IF Len(es) > 1 THEN <<44, 32>> ELSE <<>>) \o PairsText(Tail(es))

\* inline table with nested non-empty tables written as dotted keys: {a.b = 1, a.c = 2}
RECURSIVE FlatPairs(_, _)
FlatPairs(es, prefix) ==
  IF es = <<>> THEN <<>>
  ELSE LET e == Head(es) p == Append(prefix, e.key) IN
       (IF e.val.k = "t" /\ e.val.v # <<>> THEN FlatPairs(e.val.v, p) ELSE <<[path |-> p, val |-> e.val]>>)
       \o FlatPairs(Tail(es), prefix)
RECURSIVE ValueTextD(_), FlatText(_)
FlatText(ps) == IF ps = <<>> THEN <<>>
                ELSE PathText(Head(ps).path, [j \in 1..Len(Head(ps).path) |-> 0], <<46>>, 1) \o <<32, 61, 32>>
                     \o ValueTextD(Head(ps).val) \o (IF Len(ps) > 1 THEN <<44, 32>> ELSE <<>>) \o FlatText(Tail(ps))
ValueTextD(v) == IF v.k = "t" THEN <<123>> \o FlatText(FlatPairs(v.v, <<>>)) \o <<125>> ELSE ValueText(v)
=============================================================================
