------------------------------ MODULE TomlGen ------------------------------
(***************************************************************************)
(* Generator: abstract statements and values -> TOML text (a sequence of   *)
(* code points), parametrised by rendering choices.  Independent of the    *)
(* recogniser TomlLex; MC models check ParseDocument(Render(d)) = d.       *)
(***************************************************************************)
EXTENDS Chars, TomlDef

Str(s) == s   \* code point sequences are written as tuples of numbers

Cat(ss) == LET RECURSIVE C(_, _) C(q, acc) == IF q = <<>> THEN acc ELSE C(Tail(q), acc \o Head(q)) IN C(ss, <<>>)

RECURSIVE Join(_, _)
Join(ss, sep) == IF ss = <<>> THEN <<>>
                 ELSE IF Len(ss) = 1 THEN ss[1] ELSE ss[1] \o sep \o Join(Tail(ss), sep)

HexDigit(n) == IF n < 10 THEN 48 + n ELSE 87 + n
\* \uXXXX escape of a code point < 65536
EscU4(c) == <<92, 117, HexDigit(c \div 4096), HexDigit((c \div 256) % 16), HexDigit((c \div 16) % 16), HexDigit(c % 16)>>

\* one character inside a basic string, in the canonical (always valid) form
BasicChar(c) ==
  CASE c = 34 -> <<92, 34>>
    [] c = 92 -> <<92, 92>>
    [] c = 10 -> <<92, 110>>
    [] c = 13 -> <<92, 114>>
    [] c = 9 -> <<92, 116>>
    [] c = 8 -> <<92, 98>>
    [] c = 12 -> <<92, 102>>
    [] c < 32 \/ c = 127 -> EscU4(c)
    [] OTHER -> <<c>>

RECURSIVE BasicChars(_)
BasicChars(s) == IF s = <<>> THEN <<>> ELSE BasicChar(Head(s)) \o BasicChars(Tail(s))
BasicString(s) == <<34>> \o BasicChars(s) \o <<34>>

IsBareKey(s) == s # <<>> /\ \A i \in 1..Len(s) : IsBare(s[i])
IsLiteralOk(s) == \A i \in 1..Len(s) : LiteralChar(s[i])

\* key spelling: style 0 = bare if possible, 1 = basic, 2 = literal if possible
KeyText(s, style) ==
  IF style = 0 /\ IsBareKey(s) THEN s
  ELSE IF style = 2 /\ IsLiteralOk(s) THEN <<39>> \o s \o <<39>>
  ELSE BasicString(s)

\* path = <<key cps ...>>, styles = function from segment index to style, dotsp = text around dots
RECURSIVE PathText(_, _, _, _)
PathText(path, styles, dot, j) ==
  IF j > Len(path) THEN <<>>
  ELSE KeyText(path[j], styles[j]) \o (IF j < Len(path) THEN dot ELSE <<>>) \o PathText(path, styles, dot, j + 1)

RECURSIVE DigitChars(_)
DigitChars(d) == IF d = <<>> THEN <<>> ELSE <<48 + Head(d)>> \o DigitChars(Tail(d))

RECURSIVE NatText(_)
NatText(n) == IF n < 10 THEN <<48 + n>> ELSE NatText(n \div 10) \o <<48 + (n % 10)>>
Pad2(n) == IF n < 10 THEN <<48, 48 + n>> ELSE NatText(n)
Pad4(n) == IF n < 10 THEN <<48, 48, 48>> \o NatText(n) ELSE IF n < 100 THEN <<48, 48>> \o NatText(n)
           ELSE IF n < 1000 THEN <<48>> \o NatText(n) ELSE NatText(n)
RECURSIVE PadLeft(_, _)
PadLeft(s, n) == IF Len(s) >= n THEN s ELSE PadLeft(<<48>> \o s, n)

\* canonical text of a value (one fixed spelling; variants are produced by Spell* operators)
RECURSIVE ValueText(_), ElemsText(_), PairsText(_)
ValueText(v) ==
  CASE v.k = "s" -> BasicString(v.v)
    [] v.k = "i" -> (IF v.neg THEN <<45>> ELSE <<>>) \o DigitChars(v.d)
    [] v.k = "b" -> IF v.v THEN <<116, 114, 117, 101>> ELSE <<102, 97, 108, 115, 101>>
    [] v.k = "f" ->
         (IF v.neg THEN <<45>> ELSE <<>>) \o
         (CASE v.c = "inf" -> <<105, 110, 102>>
            [] v.c = "nan" -> <<110, 97, 110>>
            [] v.c = "zero" -> <<48, 46, 48>>
            [] OTHER -> <<48 + v.d[1], 46>> \o (IF Len(v.d) = 1 THEN <<48>> ELSE DigitChars(Tail(v.d)))
                        \o <<101>> \o (IF v.e < 0 THEN <<45>> \o NatText(0 - v.e) ELSE NatText(v.e)))
    [] v.k = "dt" ->
         (IF v.date # <<>> THEN Pad4(v.date[1]) \o <<45>> \o Pad2(v.date[2]) \o <<45>> \o Pad2(v.date[3]) ELSE <<>>)
         \o (IF v.date # <<>> /\ v.time # <<>> THEN <<84>> ELSE <<>>)
         \o (IF v.time # <<>> THEN Pad2(v.time[1]) \o <<58>> \o Pad2(v.time[2]) \o <<58>> \o Pad2(v.time[3])
                \o (IF v.time[4] # 0 THEN <<46>> \o PadLeft(NatText(v.time[4]), 9) ELSE <<>>) ELSE <<>>)
         \o (CASE v.off.t = "Z" -> <<90>>
               [] v.off.t = "O" -> LET a == IF v.off.m < 0 THEN 0 - v.off.m ELSE v.off.m IN
                                   (IF v.off.m < 0 THEN <<45>> ELSE <<43>>) \o Pad2(a \div 60) \o <<58>> \o Pad2(a % 60)
               [] OTHER -> <<>>)
    [] v.k = "a" -> <<91>> \o ElemsText(v.v) \o <<93>>
    [] v.k = "t" -> <<123>> \o PairsText(v.v) \o <<125>>
ElemsText(vs) == IF vs = <<>> THEN <<>>
                 ELSE ValueText(Head(vs)) \o (IF Len(vs) > 1 THEN <<44, 32>> ELSE <<>>) \o ElemsText(Tail(vs))
\* inline tables are rendered from their ordered tree: nested tables written as dotted keys is a
\* choice made by the caller (RenderInline); here every entry is written as key = value
PairsText(es) == IF es = <<>> THEN <<>>
                 ELSE KeyText(Head(es).key, 0) \o <<32, 61, 32>> \o ValueText(Head(es).val)
                      \o (IF Len(es) > 1 THEN <<44, 32>> ELSE <<>>) \o PairsText(Tail(es))

\* inline table with nested non-empty tables written as dotted keys: {a.b = 1, a.c = 2}
RECURSIVE FlatPairs(_, _)
FlatPairs(es, prefix) ==
  IF es = <<>> THEN <<>>
  ELSE LET e == Head(es) p == Append(prefix, e.key) IN
       (IF e.val.k = "t" /\ e.val.v # <<>> THEN FlatPairs(e.val.v, p) ELSE <<[path |-> p, val |-> e.val]>>)
       \o FlatPairs(Tail(es), prefix)
RECURSIVE ValueTextD(_), FlatText(_)
FlatText(ps) == IF ps = <<>> THEN <<>>
                ELSE PathText(Head(ps).path, [j \in 1..Len(Head(ps).path) |-> 0], <<46>>, 1) \o <<32, 61, 32>>
                     \o ValueTextD(Head(ps).val) \o (IF Len(ps) > 1 THEN <<44, 32>> ELSE <<>>) \o FlatText(Tail(ps))
ValueTextD(v) == IF v.k = "t" THEN <<123>> \o FlatText(FlatPairs(v.v, <<>>)) \o <<125>> ELSE ValueText(v)

(***************************************************************************)
(* Spelling sets: every way the grammar allows to write one abstract value *)
(* (within stated bounds).  The generator is deliberately able to spell    *)
(* out-of-range numbers too: validity is decided by the recogniser.        *)
(***************************************************************************)
\* all placements of underscores between the characters of cs
RECURSIVE UsAll(_)
UsAll(cs) == IF Len(cs) <= 1 THEN {cs}
             ELSE LET rest == UsAll(Tail(cs)) IN
                  {<<Head(cs)>> \o r : r \in rest} \cup {<<Head(cs), 95>> \o r : r \in rest}
RECURSIVE UsEvery(_)
UsEvery(cs) == IF Len(cs) <= 1 THEN cs ELSE <<Head(cs), 95>> \o UsEvery(Tail(cs))
\* a few placements for long sequences: none, first gap, last gap, every gap
UsSome(cs) == IF Len(cs) <= 1 THEN {cs}
              ELSE {cs, <<Head(cs), 95>> \o Tail(cs), SubSeq(cs, 1, Len(cs) - 1) \o <<95, cs[Len(cs)]>>, UsEvery(cs)}
Us(cs) == IF Len(cs) <= 5 THEN UsAll(cs) ELSE UsSome(cs)

\* decimal digit sequence -> digits in base b (schoolbook division)
RECURSIVE DivSmallAcc(_, _, _, _)
DivSmallAcc(d, b, rem, q) ==
  IF d = <<>> THEN [q |-> q, r |-> rem]
  ELSE LET cur == rem * 10 + Head(d) IN DivSmallAcc(Tail(d), b, cur % b, Append(q, cur \div b))
RECURSIVE StripZ(_)
StripZ(d) == IF Len(d) > 1 /\ d[1] = 0 THEN StripZ(Tail(d)) ELSE d
DivSmall(d, b) == LET x == DivSmallAcc(d, b, 0, <<>>) IN [q |-> StripZ(x.q), r |-> x.r]
RECURSIVE ToBase(_, _)
ToBase(d, b) == IF d = <<0>> THEN <<>> ELSE LET x == DivSmall(d, b) IN Append(ToBase(x.q, b), x.r)
BaseDigits(d, b) == IF d = <<0>> THEN <<0>> ELSE ToBase(d, b)
LowerHex(ds) == [i \in 1..Len(ds) |-> IF ds[i] < 10 THEN 48 + ds[i] ELSE 87 + ds[i]]
UpperHex(ds) == [i \in 1..Len(ds) |-> IF ds[i] < 10 THEN 48 + ds[i] ELSE 55 + ds[i]]
MixedHex(ds) == [i \in 1..Len(ds) |-> IF ds[i] < 10 THEN 48 + ds[i] ELSE IF i % 2 = 0 THEN 55 + ds[i] ELSE 87 + ds[i]]

\* integer with magnitude digits d (decimal, no leading zeros) and sign neg
IntSpellings(neg, d) ==
  LET dec == Us(DigitChars(d))
      sdec == IF neg THEN {<<45>> \o x : x \in dec} ELSE dec \cup {<<43>> \o x : x \in dec}
      hx == BaseDigits(d, 16) oc == BaseDigits(d, 8) bn == BaseDigits(d, 2)
      pre(p, cs) == {<<48, p>> \o x : x \in UsSome(cs)} \cup {<<48, p, 48>> \o cs, <<48, p, 48, 95>> \o cs}
      based == pre(120, LowerHex(hx)) \cup pre(120, UpperHex(hx)) \cup pre(120, MixedHex(hx))
               \cup pre(111, LowerHex(oc)) \cup pre(98, LowerHex(bn))
  IN IF neg \/ Len(bn) > 70 THEN sdec ELSE sdec \cup based

Zeros(n) == [i \in 1..n |-> 48]
\* finite float with significant digits d (n >= 1, d[1] # 0) and exponent e of the leading digit
FinSpellings(d, e) ==
  LET n == Len(d)
      dc == DigitChars(d)
      frac == IF n = 1 THEN <<48>> ELSE Tail(dc)
      abse == IF e < 0 THEN 0 - e ELSE e
      expforms(x) == LET a == IF x < 0 THEN 0 - x ELSE x IN
                     IF x < 0 THEN {<<45>> \o NatText(a), <<45, 48>> \o NatText(a)}
                     ELSE {NatText(a), <<43>> \o NatText(a), <<48>> \o NatText(a), <<43, 48, 48>> \o NatText(a)}
      sci == {<<dc[1], 46>> \o frac \o <<m>> \o x : m \in {101, 69}, x \in expforms(e)}
      sciint == IF n = 1 THEN {<<dc[1], m>> \o x : m \in {101, 69}, x \in expforms(e)} ELSE {}
      shifted == {dc \o <<101>> \o x : x \in expforms(e - (n - 1))}
                 \cup (IF n >= 2 /\ n <= 6 THEN {u \o <<46, 48, 101>> \o x : u \in Us(dc), x \in {IF e - (n - 1) < 0 THEN <<45>> \o NatText((n - 1) - e) ELSE NatText(e - (n - 1))}} ELSE {})
      pos == IF e >= 0 /\ e <= 20 THEN
               (IF e + 1 >= n THEN {dc \o Zeros(e + 1 - n) \o <<46, 48>>, dc \o Zeros(e + 1 - n) \o <<46, 48, 48>>}
                ELSE {SubSeq(dc, 1, e + 1) \o <<46>> \o SubSeq(dc, e + 2, n), SubSeq(dc, 1, e + 1) \o <<46>> \o SubSeq(dc, e + 2, n) \o <<48>>})
             ELSE IF e < 0 /\ e >= 0 - 8 THEN {<<48, 46>> \o Zeros(abse - 1) \o dc, <<48, 46>> \o Zeros(abse - 1) \o dc \o <<48, 48>>}
             ELSE {}
  IN sci \cup sciint \cup shifted \cup pos

FloatSpellings(v) ==
  LET body == CASE v.c = "inf" -> {<<105, 110, 102>>}
                [] v.c = "nan" -> {<<110, 97, 110>>}
                [] v.c = "zero" -> {<<48, 46, 48>>, <<48, 101, 48>>, <<48, 46, 48, 48, 101, 45, 48>>, <<48, 69, 43, 48, 48>>, <<48, 46, 48, 101, 49, 48>>}
                [] OTHER -> FinSpellings(v.d, v.e)
  IN IF v.neg THEN {<<45>> \o x : x \in body} ELSE body \cup {<<43>> \o x : x \in body}

\* \UXXXXXXXX
EscU8(c) == <<92, 85, 48, 48, HexDigit(c \div 1048576), HexDigit((c \div 65536) % 16), HexDigit((c \div 4096) % 16),
              HexDigit((c \div 256) % 16), HexDigit((c \div 16) % 16), HexDigit(c % 16)>>
UpperEsc(x) == [i \in 1..Len(x) |-> IF i > 2 /\ x[i] >= 97 /\ x[i] <= 102 THEN x[i] - 32 ELSE x[i]]
MapChars(s, f(_)) == Cat([i \in 1..Len(s) |-> f(s[i])])
\* character in a multi-line basic body: line feeds raw, the rest as in a basic string
MlBasicChar(c) == IF c = 10 THEN <<10>> ELSE BasicChar(c)
MlBasicCharCrlf(c) == IF c = 10 THEN <<13, 10>> ELSE BasicChar(c)
HasRun3(s, q) == \E i \in 1..(Len(s) - 2) : s[i] = q /\ s[i + 1] = q /\ s[i + 2] = q
MlLiteralOk(s) == /\ \A i \in 1..Len(s) : LiteralChar(s[i]) \/ s[i] = 10 \/ s[i] = 39
                  /\ ~HasRun3(s, 39)
Q3 == <<34, 34, 34>>
A3 == <<39, 39, 39>>
\* every spelling of the string s as a value
StringSpellings(s) ==
  LET basic == {BasicString(s),
                <<34>> \o MapChars(s, LAMBDA c : IF c < 65536 THEN EscU4(c) ELSE EscU8(c)) \o <<34>>,
                <<34>> \o MapChars(s, LAMBDA c : UpperEsc(EscU8(c))) \o <<34>>}
      lit == IF IsLiteralOk(s) THEN {<<39>> \o s \o <<39>>} ELSE {}
      body == MapChars(s, MlBasicChar)
      startsSafe == s = <<>> \/ (~IsWs(s[1]) /\ s[1] # 10)
      mlb == {Q3 \o <<10>> \o body \o Q3,
              Q3 \o <<13, 10>> \o MapChars(s, MlBasicCharCrlf) \o Q3}
             \cup (IF startsSafe THEN {Q3 \o <<92, 10, 32, 9, 10>> \o body \o <<92, 32, 13, 10>> \o Q3} ELSE {})
             \cup (IF s = <<>> \/ s[1] # 10 THEN {Q3 \o body \o Q3} ELSE {})
             \cup {Q3 \o <<10>> \o MapChars(SubSeq(s, 1, i), MlBasicChar) \o <<92, 32, 32, 10, 10, 9>> \o MapChars(SubSeq(s, i + 1, Len(s)), MlBasicChar) \o Q3
                     : i \in {j \in 1..(Len(s) - 1) : ~IsWs(s[j + 1]) /\ s[j + 1] # 10}}
      \* quotes written raw inside a multi-line basic string where the grammar allows (runs of at most two)
      rawq == IF (\A i \in 1..Len(s) : BasicUnescaped(s[i]) \/ s[i] = 34 \/ s[i] = 10) /\ ~HasRun3(s, 34)
              THEN {Q3 \o <<10>> \o s \o Q3} ELSE {}
      mll == IF MlLiteralOk(s)
             THEN {A3 \o <<10>> \o s \o A3,
                   A3 \o <<13, 10>> \o MapChars(s, LAMBDA c : IF c = 10 THEN <<13, 10>> ELSE <<c>>) \o A3}
                  \cup (IF s = <<>> \/ s[1] # 10 THEN {A3 \o s \o A3} ELSE {})
             ELSE {}
  IN basic \cup lit \cup mlb \cup rawq \cup mll

\* every spelling of s as a key
KeySpellings(s) ==
  {BasicString(s), <<34>> \o MapChars(s, LAMBDA c : IF c < 65536 THEN EscU4(c) ELSE EscU8(c)) \o <<34>>}
  \cup (IF IsBareKey(s) THEN {s} ELSE {})
  \cup (IF IsLiteralOk(s) THEN {<<39>> \o s \o <<39>>} ELSE {})

RECURSIVE StripTrailChars(_)
StripTrailChars(cs) == IF cs # <<>> /\ cs[Len(cs)] = 48 THEN StripTrailChars(SubSeq(cs, 1, Len(cs) - 1)) ELSE cs
DateText(dt) == Pad4(dt[1]) \o <<45>> \o Pad2(dt[2]) \o <<45>> \o Pad2(dt[3])
TimeSpellings(tm) ==
  LET hms == Pad2(tm[1]) \o <<58>> \o Pad2(tm[2]) \o <<58>> \o Pad2(tm[3])
      nine == PadLeft(NatText(tm[4]), 9)
  IN IF tm[4] = 0 THEN {hms, hms \o <<46, 48>>, hms \o <<46>> \o Zeros(9), hms \o <<46>> \o Zeros(12)}
     ELSE {hms \o <<46>> \o StripTrailChars(nine), hms \o <<46>> \o nine, hms \o <<46>> \o nine \o <<57, 56, 55>>}
OffsetSpellings(o) ==
  CASE o.t = "N" -> {<<>>}
    [] o.t = "Z" -> {<<90>>, <<122>>}
    [] OTHER -> LET a == IF o.m < 0 THEN 0 - o.m ELSE o.m IN
                {(IF o.m < 0 THEN <<45>> ELSE <<43>>) \o Pad2(a \div 60) \o <<58>> \o Pad2(a % 60)}
                \cup (IF o.m = 0 THEN {<<45, 48, 48, 58, 48, 48>>} ELSE {})
DatetimeSpellings(v) ==
  IF v.time = <<>> THEN {DateText(v.date)}
  ELSE IF v.date = <<>> THEN TimeSpellings(v.time)
  ELSE {DateText(v.date) \o <<dl>> \o t \o o : dl \in {84, 116, 32}, t \in TimeSpellings(v.time), o \in OffsetSpellings(v.off)}

ScalarSpellings(v) ==
  CASE v.k = "s" -> StringSpellings(v.v)
    [] v.k = "i" -> IntSpellings(v.neg, v.d)
    [] v.k = "f" -> FloatSpellings(v)
    [] v.k = "dt" -> DatetimeSpellings(v)
    [] v.k = "b" -> {ValueText(v)}

\* ---- containers: layouts of given element / pair texts ----
WsSet == {<<>>, <<32>>, <<9>>, <<32, 9, 32>>}
CommentSet == {<<>>, <<35>>, <<35, 32, 99>>, <<35, 9, 233, 128512, 32>>}
ArrayLayouts(es) ==
  LET n == Len(es) IN
  IF n = 0 THEN {<<91, 93>>, <<91, 32, 93>>, <<91, 10, 93>>, <<91, 32, 35, 99, 10, 9, 93>>, <<91, 13, 10, 13, 10, 93>>}
  ELSE {<<91>> \o Join(es, <<44>>) \o <<93>>,
        <<91, 32>> \o Join(es, <<32, 44, 32>>) \o <<32, 93>>,
        <<91>> \o Join(es, <<44, 32>>) \o <<44, 93>>,
        <<91>> \o Join(es, <<44, 32>>) \o <<32, 44, 32, 93>>,
        <<91, 10, 32, 32>> \o Join(es, <<44, 10, 32, 32>>) \o <<10, 93>>,
        <<91, 13, 10, 9>> \o Join(es, <<44, 13, 10, 9>>) \o <<44, 13, 10, 93>>,
        <<91, 32, 35, 32, 99, 10>> \o Join(es, <<32, 35, 99, 10, 44, 35, 10>>) \o <<35, 99, 49, 13, 10, 35, 10, 93>>}
\* ps = texts "key = value"
InlineLayouts(ps) ==
  IF Len(ps) = 0 THEN {<<123, 125>>, <<123, 32, 125>>, <<123, 9, 32, 125>>}
  ELSE {<<123>> \o Join(ps, <<44>>) \o <<125>>,
        <<123, 32>> \o Join(ps, <<44, 32>>) \o <<32, 125>>,
        <<123, 9>> \o Join(ps, <<32, 44, 9>>) \o <<9, 125>>}
=============================================================================
