--------------------------- MODULE ParseStateImpl ---------------------------
(***************************************************************************)
(* Implementation-shaped model of crates/toml_edit/src/parser/state.rs:    *)
(* one operator per method (descend_path, on_keyval, start_table,          *)
(* start_array_table, finalize_table), the two booleans per table          *)
(* (implicit, dotted), the position counter, the detached current table.   *)
(* It is a transcription, not a contract: MCParseState checks that it      *)
(* REFINES the contract TomlDoc (same verdict, same tree, for every         *)
(* statement sequence in scope), and the harness compares the flags it      *)
(* predicts with Table::is_implicit / is_dotted / position of the real      *)
(* parser.  A mismatch of the latter kind is *model drift* (the algorithm   *)
(* changed), reported in the evidence, never a violation.                   *)
(***************************************************************************)
EXTENDS TomlDef

\* a table: [implicit, dotted, pos, items]; items = Seq of [key, it]
\* an item: [t |-> "tbl", tbl |-> table] | [t |-> "aot", elems |-> Seq(table)] | [t |-> "val", val |-> value]
NewTbl == [implicit |-> FALSE, dotted |-> FALSE, pos |-> 0, items |-> <<>>]
TblItem(t) == [t |-> "tbl", tbl |-> t, elems |-> <<>>, val |-> Dummy]
AotItem(es) == [t |-> "aot", tbl |-> NewTbl, elems |-> es, val |-> Dummy]
ValItem(v) == [t |-> "val", tbl |-> NewTbl, elems |-> <<>>, val |-> v]

IPos(items, key) == IF \E j \in 1..Len(items) : items[j].key = key THEN CHOOSE j \in 1..Len(items) : items[j].key = key ELSE 0
ErrT == [ok |-> FALSE, tbl |-> NewTbl]
OkT(t) == [ok |-> TRUE, tbl |-> t]

(***************************************************************************)
(* What is done to the table that descend_path arrives at.                 *)
(*   [a |-> "keyval", key, val]      on_keyval's tail                      *)
(*   [a |-> "take", key]             start_table: remove the entry          *)
(*   [a |-> "aot_probe", key]        start_array_table: entry().or_insert  *)
(*   [a |-> "put_tbl", key, tbl]     finalize_table, standard table        *)
(*   [a |-> "push_aot", key, tbl]    finalize_table, array of tables       *)
(* Each returns [ok, tbl, out] (out: a table handed back to the caller).   *)
(***************************************************************************)
LeafAct(t, act, pathEmpty) ==
  LET j == IPos(t.items, act.key) IN
  CASE act.a = "keyval" ->
         \* "mixed_table_types = table.is_dotted() == path.is_empty()"
         IF t.dotted = pathEmpty THEN [ok |-> FALSE, tbl |-> t, out |-> NewTbl]
         ELSE IF j # 0 THEN [ok |-> FALSE, tbl |-> t, out |-> NewTbl]
         ELSE [ok |-> TRUE, tbl |-> [t EXCEPT !.items = Append(t.items, [key |-> act.key, it |-> ValItem(act.val)])], out |-> NewTbl]
    [] act.a = "take" ->
         IF j = 0 THEN [ok |-> TRUE, tbl |-> t, out |-> NewTbl]
         ELSE LET it == t.items[j].it
                  rest == [t EXCEPT !.items = SubSeq(t.items, 1, j - 1) \o SubSeq(t.items, j + 1, Len(t.items))] IN
              IF it.t = "tbl" /\ it.tbl.implicit /\ ~it.tbl.dotted THEN [ok |-> TRUE, tbl |-> rest, out |-> it.tbl]
              ELSE [ok |-> FALSE, tbl |-> t, out |-> NewTbl]
    [] act.a = "aot_probe" ->
         IF j = 0 THEN [ok |-> TRUE, tbl |-> [t EXCEPT !.items = Append(t.items, [key |-> act.key, it |-> AotItem(<<>>)])], out |-> NewTbl]
         ELSE [ok |-> t.items[j].it.t = "aot", tbl |-> t, out |-> NewTbl]
    [] act.a = "put_tbl" ->
         IF j = 0 THEN [ok |-> TRUE, tbl |-> [t EXCEPT !.items = Append(t.items, [key |-> act.key, it |-> TblItem(act.tbl)])], out |-> NewTbl]
         ELSE IF t.items[j].it.t = "tbl" /\ t.items[j].it.tbl.implicit
              THEN [ok |-> TRUE, tbl |-> [t EXCEPT !.items[j].it = TblItem(act.tbl)], out |-> NewTbl]
              ELSE [ok |-> FALSE, tbl |-> t, out |-> NewTbl]
    [] act.a = "push_aot" ->
         IF j = 0 THEN [ok |-> TRUE, tbl |-> [t EXCEPT !.items = Append(t.items, [key |-> act.key, it |-> AotItem(<<act.tbl>>)])], out |-> NewTbl]
         ELSE IF t.items[j].it.t = "aot"
              THEN [ok |-> TRUE, tbl |-> [t EXCEPT !.items[j].it.elems = Append(t.items[j].it.elems, act.tbl)], out |-> NewTbl]
              ELSE [ok |-> FALSE, tbl |-> t, out |-> NewTbl]

\* descend_path(table, path, dotted) followed by the leaf action; i = index into path
\* (deliberate deviation: the count of levels walked - an array of tables counts twice - that reports the
\* recursion-limit error, fix 7f061db, is not transcribed: it matters from 40 chained [[headers]] on, far beyond
\* the scopes checked here; Depth.tla and the depth events of C05 cover it)
RECURSIVE Descend(_, _, _, _, _)
Descend(t, path, i, dotted, act) ==
  IF i > Len(path) THEN LeafAct(t, act, Len(path) = 0)
  ELSE LET key == path[i]
           j0 == IPos(t.items, key)
           \* entry_format(key).or_insert_with(new implicit table, dotted as asked)
           t1 == IF j0 = 0 THEN [t EXCEPT !.items = Append(t.items, [key |-> key, it |-> TblItem([NewTbl EXCEPT !.implicit = TRUE, !.dotted = dotted])])] ELSE t
           j == IPos(t1.items, key)
           it == t1.items[j].it
       IN CASE it.t = "val" -> [ok |-> FALSE, tbl |-> t, out |-> NewTbl]
            [] it.t = "aot" ->
                 \* (fix 92bd7eb) dotted keys do not descend into an array of tables
                 IF dotted /\ i # Len(path) THEN [ok |-> FALSE, tbl |-> t, out |-> NewTbl]
                 ELSE LET n == Len(it.elems)
                          r == Descend(it.elems[n], path, i + 1, dotted, act) IN
                      IF r.ok THEN [ok |-> TRUE, tbl |-> [t1 EXCEPT !.items[j].it.elems[n] = r.tbl], out |-> r.out] ELSE [r EXCEPT !.tbl = t]
            [] it.t = "tbl" ->
                 IF dotted /\ ~it.tbl.implicit THEN [ok |-> FALSE, tbl |-> t, out |-> NewTbl]
                 ELSE LET r == Descend(it.tbl, path, i + 1, dotted, act) IN
                      IF r.ok THEN [ok |-> TRUE, tbl |-> [t1 EXCEPT !.items[j].it.tbl = r.tbl], out |-> r.out] ELSE [r EXCEPT !.tbl = t]

\* ---- ParseState ----
InitPS == [root |-> NewTbl, cur |-> NewTbl, curIsArray |-> FALSE, curPath |-> <<>>, position |-> 0, ok |-> TRUE]
FailPS(ps) == [ps EXCEPT !.ok = FALSE]

FinalizeTable(ps) ==
  LET table == ps.cur
      path == ps.curPath
      cleared == [ps EXCEPT !.cur = NewTbl, !.curPath = <<>>] IN
  IF path = <<>> THEN [cleared EXCEPT !.root = table]      \* the root table itself (asserted empty before)
  ELSE LET r == Descend(ps.root, AllButLast(path), 1, FALSE,
                        [a |-> IF ps.curIsArray THEN "push_aot" ELSE "put_tbl", key |-> LastEl(path), tbl |-> table, val |-> Dummy]) IN
       IF r.ok THEN [cleared EXCEPT !.root = r.tbl] ELSE FailPS(ps)

OnKeyval(ps, path, v) ==
  LET r == Descend(ps.cur, AllButLast(path), 1, TRUE, [a |-> "keyval", key |-> LastEl(path), tbl |-> NewTbl, val |-> v]) IN
  IF r.ok THEN [ps EXCEPT !.cur = r.tbl] ELSE FailPS(ps)

OnStdHeader(ps0, path) ==
  LET ps == FinalizeTable(ps0) IN
  IF ~ps.ok THEN ps
  ELSE LET r == Descend(ps.root, AllButLast(path), 1, FALSE, [a |-> "take", key |-> LastEl(path), tbl |-> NewTbl, val |-> Dummy]) IN
       IF ~r.ok THEN FailPS(ps)
       ELSE [ps EXCEPT !.root = r.tbl, !.position = ps.position + 1,
                       !.cur = [r.out EXCEPT !.implicit = FALSE, !.dotted = FALSE, !.pos = ps.position + 1],
                       !.curIsArray = FALSE, !.curPath = path]

OnArrayHeader(ps0, path) ==
  LET ps == FinalizeTable(ps0) IN
  IF ~ps.ok THEN ps
  ELSE LET r == Descend(ps.root, AllButLast(path), 1, FALSE, [a |-> "aot_probe", key |-> LastEl(path), tbl |-> NewTbl, val |-> Dummy]) IN
       IF ~r.ok THEN FailPS(ps)
       ELSE [ps EXCEPT !.root = r.tbl, !.position = ps.position + 1,
                       !.cur = [NewTbl EXCEPT !.pos = ps.position + 1],
                       !.curIsArray = TRUE, !.curPath = path]

\* a statement of TomlDef: [kind, path (with .s), val]
Names(s) == [j \in 1..Len(s.path) |-> s.path[j].s]
ApplyPS(ps, s) ==
  CASE s.kind = "kv" -> OnKeyval(ps, Names(s), s.val)
    [] s.kind = "std" -> OnStdHeader(ps, Names(s))
    [] s.kind = "aot" -> OnArrayHeader(ps, Names(s))
IntoDocument(ps) == FinalizeTable(ps)

\* ---- what the public API shows: the tree, and the flags of every table ----
RECURSIVE TblTree(_), ItemsTree(_), ElemsTree(_)
TblTree(t) == [k |-> "t", v |-> ItemsTree(t.items)]
ItemsTree(items) ==
  IF items = <<>> THEN <<>>
  ELSE LET e == Head(items) IN
       <<[key |-> e.key,
          val |-> CASE e.it.t = "val" -> Plain(e.it.val)
                    [] e.it.t = "tbl" -> TblTree(e.it.tbl)
                    [] e.it.t = "aot" -> [k |-> "a", v |-> ElemsTree(e.it.elems)]]>> \o ItemsTree(Tail(items))
ElemsTree(es) == IF es = <<>> THEN <<>> ELSE <<TblTree(Head(es))>> \o ElemsTree(Tail(es))

\* <<path, implicit, dotted, pos>> for every table, in iteration order (arrays of tables: an index step <<0 - 1, i>>)
RECURSIVE Flags(_, _), ItemsFlags(_, _), ElemsFlags(_, _, _)
Flags(t, path) == <<[path |-> path, implicit |-> t.implicit, dotted |-> t.dotted, pos |-> t.pos]>> \o ItemsFlags(t.items, path)
ItemsFlags(items, path) ==
  IF items = <<>> THEN <<>>
  ELSE LET e == Head(items) p == Append(path, e.key) IN
       (CASE e.it.t = "tbl" -> Flags(e.it.tbl, p)
          [] e.it.t = "aot" -> ElemsFlags(e.it.elems, p, 0)
          [] OTHER -> <<>>) \o ItemsFlags(Tail(items), path)
ElemsFlags(es, path, i) == IF es = <<>> THEN <<>> ELSE Flags(Head(es), Append(path, <<0 - 1, i>>)) \o ElemsFlags(Tail(es), path, i + 1)
=============================================================================
