------------------------------ MODULE MCEncode ------------------------------
(* Design-level check of the printer's table placement (EncodeImpl): for every *)
(* statement sequence in the scope of MCTomlDoc that the parser model accepts, *)
(* and every sequence of up to EDITS insertions / removals through the API on  *)
(* every table position, what the printer writes is a document of the contract *)
(* (TomlDoc) with the content of the in-memory tree.                           *)
EXTENDS MCParseState, EncodeImpl

CONSTANT EDITS    \* 0, 1 or 2 edits after parsing

ZZ == <<122, 122>>
RECURSIVE TblAt(_, _)
TblAt(t, path) ==
  IF path = <<>> THEN t
  ELSE LET j == IPos(t.items, Head(path)) it == t.items[j].it IN
       IF it.t = "tbl" THEN TblAt(it.tbl, Tail(path)) ELSE TblAt(it.elems[path[2][2] + 1], SubSeq(path, 3, Len(path)))
M(p, op, key, it) == [path |-> p, op |-> op, key |-> key, it |-> it]
MutsAt(root, p) ==
  LET t == TblAt(root, p)
      keys == {t.items[x].key : x \in 1..Len(t.items)} IN
  {M(p, "insert", ZZ, NewApiTable(One)), M(p, "insert", ZZ, ValItem(One))}
  \cup {M(p, "remove", k, ValItem(One)) : k \in keys}
  \cup {M(p, "insert", k, NewApiTable(One)) : k \in keys}
  \cup {M(p, "insert", k, ValItem(One)) : k \in keys}
Muts(root) == UNION {MutsAt(root, p) : p \in TblPaths(root, <<>>)}
Mut(root, m) == EditAt(root, m.path, m)

RECURSIVE AllOK(_, _)
AllOK(root, n) ==
  /\ PrintedOK(root)
  /\ n > 0 => \A m \in Muts(root) : AllOK(Mut(root, m), n - 1)

EncodeKeepsContent ==
  res = "ok" => LET ps == ImplRun(hist) IN ps.ok => AllOK(ps.root, EDITS)

\* diagnosis: the first failing edit sequence
RECURSIVE FirstBad(_, _, _)
FirstBad(root, n, acc) ==
  IF ~PrintedOK(root) THEN <<[edits |-> acc, printed |-> Shape(PrintStmts(root))]>>
  ELSE IF n = 0 THEN <<>>
  ELSE LET bad == {m \in Muts(root) : FirstBad(Mut(root, m), n - 1, Append(acc, [path |-> m.path, op |-> m.op, key |-> m.key, tbl |-> m.it.t])) # <<>>} IN
       IF bad = {} THEN <<>> ELSE LET m == CHOOSE m \in bad : TRUE IN
            FirstBad(Mut(root, m), n - 1, Append(acc, [path |-> m.path, op |-> m.op, key |-> m.key, tbl |-> m.it.t]))
Diagnose == (res = "ok" /\ ImplRun(hist).ok /\ ~AllOK(ImplRun(hist).root, EDITS)) =>
               PrintT(<<"ENCODE-BAD", RenderDoc(hist), FirstBad(ImplRun(hist).root, EDITS, <<>>)>>)
=============================================================================
