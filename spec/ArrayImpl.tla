------------------------------ MODULE ArrayImpl ------------------------------
(***************************************************************************)
(* Implementation-shaped model of toml_edit::Array as the format-          *)
(* preserving editor sees it (crates/toml_edit/src/array.rs: push /        *)
(* insert via value_op, replace, remove, retain, fmt = decorate_array;     *)
(* parser/array.rs: which trivia goes where; encode.rs: encode_array).     *)
(*                                                                         *)
(* An array is a sequence of elements [pre, txt, suf] (the whitespace /    *)
(* comments before and after the element and the element's own text), the  *)
(* trivia after the last comma (`trailing`) and the trailing-comma flag.   *)
(* MCArray checks that whatever a history of edits prints is an array of   *)
(* the grammar holding the expected elements, with the comments of the     *)
(* surviving elements still there; Validate compares the text the model    *)
(* predicts with the text the real printer wrote (model drift, C08).       *)
(***************************************************************************)
EXTENDS TomlLex

El(pre, txt, suf) == [pre |-> pre, txt |-> txt, suf |-> suf]
Arr(es, trailing, tc) == [es |-> es, trailing |-> trailing, tc |-> tc]

\* ---- parser/array.rs: array_values = separated(ws-comment-newline value ws-comment-newline, ",") [","] ws-comment-newline
\* t = text, arr = the parsed array (TomlLex value with its span and the spans of its elements)
SepAfter(t, arr, x) == WsCommentNl(t, arr.v[x].sp[2]).i          \* position of the "," or "]" after element x
FromText(t, arr) ==
  LET open == arr.sp[1]
      close == arr.sp[2] - 1
      n == Len(arr.v)
      es == [x \in 1..n |-> El(SubSeq(t, IF x = 1 THEN open + 1 ELSE SepAfter(t, arr, x - 1) + 1, arr.v[x].sp[1] - 1),
                               SubSeq(t, arr.v[x].sp[1], arr.v[x].sp[2] - 1),
                               SubSeq(t, arr.v[x].sp[2], SepAfter(t, arr, x) - 1))]
      tc == n > 0 /\ At(t, SepAfter(t, arr, n)) = 44
  IN Arr(es, IF n = 0 THEN SubSeq(t, open + 1, close - 1) ELSE IF tc THEN SubSeq(t, SepAfter(t, arr, n) + 1, close - 1) ELSE <<>>, tc)

\* ---- array.rs ----
\* value_op: a new value is decorated (" ", "") when the array already holds something, ("", "") otherwise
NewEl(a, txt) == El(IF a.es # <<>> THEN <<32>> ELSE <<>>, txt, <<>>)
AInsertIdx(s, j, x) == SubSeq(s, 1, j - 1) \o <<x>> \o SubSeq(s, j, Len(s))
ARemoveIdx(s, j) == SubSeq(s, 1, j - 1) \o SubSeq(s, j + 1, Len(s))
ArrEnabled(a, o) ==
  CASE o.op = "array_push" -> TRUE
    [] o.op = "array_insert" -> o.i <= Len(a.es)
    [] o.op \in {"array_replace", "array_remove"} -> o.i + 1 <= Len(a.es)
    [] o.op = "array_fmt" -> TRUE
    [] OTHER -> FALSE
ArrApply(a, o) ==
  CASE o.op = "array_push" -> [a EXCEPT !.es = Append(a.es, NewEl(a, o.txt))]
    [] o.op = "array_insert" -> [a EXCEPT !.es = AInsertIdx(a.es, o.i + 1, NewEl(a, o.txt))]
    \* replace keeps the decor of the element it replaces
    [] o.op = "array_replace" -> [a EXCEPT !.es[o.i + 1].txt = o.txt]
    \* remove (and retain) take the element out with its decor; the neighbours keep theirs
    [] o.op = "array_remove" -> [a EXCEPT !.es = ARemoveIdx(a.es, o.i + 1)]
    \* fmt = decorate_array: one line, no trailing comma
    [] o.op = "array_fmt" -> Arr([x \in 1..Len(a.es) |-> El(IF x = 1 THEN <<>> ELSE <<32>>, a.es[x].txt, <<>>)], <<>>, FALSE)

\* ---- encode.rs: encode_array ----
RECURSIVE ElemsText(_, _)
ElemsText(es, x) == IF x > Len(es) THEN <<>>
                    ELSE (IF x > 1 THEN <<44>> ELSE <<>>) \o es[x].pre \o es[x].txt \o es[x].suf \o ElemsText(es, x + 1)
ArrPrint(a) == <<91>> \o ElemsText(a.es, 1) \o (IF a.tc /\ a.es # <<>> THEN <<44>> ELSE <<>>) \o a.trailing \o <<93>>

\* carriage returns are dropped from trivia when it is printed
RECURSIVE DropCr(_)
DropCr(s) == IF s = <<>> THEN <<>> ELSE (IF Head(s) = 13 THEN <<>> ELSE <<Head(s)>>) \o DropCr(Tail(s))
=============================================================================
