------------------------------- MODULE Depth -------------------------------
(***************************************************************************)
(* Nesting (C05).  A document pattern is                                   *)
(*    [hs, hk, ks, layers]  hs = segments of the header (0 = none), hk =   *)
(*                       "std" for [..] / "aot" for [[..]] / "chain" for   *)
(*                       [[k]], [[k.k]], ... (every prefix an array of     *)
(*                       tables: two levels of nesting per key),           *)
(*                       ks = segments of the top-level key,               *)
(*                       layers = <<layer...>> from the outside in, with   *)
(*        [c |-> "A", n]        n nested arrays                            *)
(*        [c |-> "I", n, s]     n nested inline tables, each entered by a  *)
(*                              dotted key of s segments                   *)
(* Sizes are symbolic (functions of the recursion limit L): "1", "L-2",    *)
(* "L-1", "L", "L+1", "4L".  The module defines the structural depth of a  *)
(* pattern, which patterns must be accepted, the bound every accepted      *)
(* document must respect, and two counter disciplines: "independent" (a    *)
(* counter for open arrays/inline tables, a separate per-key check) and    *)
(* "additive" (key segments count towards the same counter).  TLC shows    *)
(* that the bound follows from the additive discipline and exhibits the    *)
(* multiplicative patterns that escape the independent one.                *)
(***************************************************************************)
EXTENDS DepthDef, TLC, Json

CONSTANTS LIMIT,        \* the recursion limit used when model checking the counters (2..4)
          DISCIPLINE    \* "independent" | "additive"

\* ---- counter disciplines ----
RECURSIVE OpenCount(_, _), AddCount(_, _)
OpenCount(ls, L) == IF ls = <<>> THEN 0 ELSE Size(Head(ls).n, L) + OpenCount(Tail(ls), L)
AddCount(ls, L) == IF ls = <<>> THEN 0
                   ELSE (IF Head(ls).c \in {"AE", "IE"} THEN Size(Head(ls).n, L) + 1
                         ELSE IF Head(ls).c = "A" THEN Size(Head(ls).n, L) ELSE Size(Head(ls).n, L) * Size(Head(ls).s, L)) + AddCount(Tail(ls), L)
KeysOk(p, L) == HS(p, L) < L /\ (p.hs # "0" => Size(p.hs, L) < L) /\ Size(p.ks, L) < L /\ \A i \in 1..Len(p.layers) : p.layers[i].c \in {"I", "IE"} => Size(p.layers[i].s, L) < L
Accepts(p, L) ==
  IF DISCIPLINE = "independent" THEN KeysOk(p, L) /\ OpenCount(p.layers, L) < L
  ELSE KeysOk(p, L) /\ (Size(p.ks, L) - 1) + AddCount(p.layers, L) < L

VARIABLES pat, lvl
Init == lvl = 0 /\ pat = [hs |-> "0", hk |-> "std", ks |-> "1", layers |-> <<>>]
Next == lvl = 0 /\ lvl' = 1 /\ pat' \in Patterns
Spec == Init /\ [][Next]_<<pat, lvl>>

\* accepted => bounded (holds for "additive", violated for "independent": TLC prints the extremal pattern)
Bounded == Accepts(pat, LIMIT) => StructDepth(pat, LIMIT) <= Bound(LIMIT)
\* the contract is satisfiable: what must be accepted is accepted by both disciplines
Liveness == MustAccept(pat) => Accepts(pat, LIMIT)
\* direction G: one case per pattern, with what the specification requires of it
Emit == lvl = 1 => PrintT(ToJson([hs |-> pat.hs, hk |-> pat.hk, ks |-> pat.ks, layers |-> pat.layers, must_accept |-> MustAccept(pat)]))
=============================================================================
