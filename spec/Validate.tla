------------------------------ MODULE Validate ------------------------------
(***************************************************************************)
(* Trace validation of independent calls (DESIGN.md 4.2, "fan-out"): the   *)
(* harness records one event per public call of the implementation (input, *)
(* result, projected state); TLC evaluates the specification on the input  *)
(* of every event and compares.  State graph: a root, K chunk states, one  *)
(* leaf per event; the conformance condition is evaluated on leaf states.  *)
(* A non-conforming event prints one MISMATCH line (and the run goes on,   *)
(* so that every event is judged); the driver requires that the number of  *)
(* distinct states equals 1 + K + N, i.e. that every event was evaluated.  *)
(***************************************************************************)
EXTENDS KeyImpl, SerdeModel, DepthDef, Containers, WalkDef, BuildDef, EncodeImpl, ArrayImpl, Json, IOUtils

Ev == ndJsonDeserialize(IOEnv.TRACE)
N == Len(Ev)
K == 64

VARIABLES lvl, idx
vars == <<lvl, idx>>

\* ------------------------------------------------------------------------
\* comparison of a specification value `s` with a projected implementation
\* value `m` (tag first, then fields of that tag only: TLC equality is
\* type-strict)
\* ------------------------------------------------------------------------
Abs(x) == IF x < 0 THEN 0 - x ELSE x

SameF(s, m) ==
  /\ m.neg = s.neg
  /\ CASE s.c \in {"nan", "inf", "zero"} -> m.c = s.c
       [] s.c = "fin" /\ Len(s.d) <= 15 /\ s.e >= 0 - 307 /\ s.e <= 307 ->
            m.c = "fin" /\ m.d = s.d /\ m.e = s.e
       [] s.c = "fin" /\ s.e < 0 - 307 ->
            \/ m.c = "zero" /\ s.e <= 0 - 324
            \/ m.c = "fin" /\ Abs(m.e - s.e) <= 1
       [] OTHER -> m.c = "fin" /\ Abs(m.e - s.e) <= 1

KeysOf(es) == [i \in 1..Len(es) |-> es[i].key]

\* strict: both sides are shortest round-trip digits of a double (no literal involved): exact equality
StrictF(s, m) == m.c = s.c /\ m.neg = s.neg /\ m.d = s.d /\ m.e = s.e
RECURSIVE SameVS(_, _, _, _)
SameV(s, m, ordered) == SameVS(s, m, ordered, FALSE)
SameVS(s, m, ordered, strict) ==
  /\ s.k = m.k
  /\ CASE s.k = "s" -> m.v = s.v \/ m.v = s.alt
       [] s.k = "i" -> m.neg = s.neg /\ m.d = s.d
       [] s.k = "b" -> m.v = s.v
       [] s.k = "f" -> IF strict THEN StrictF(s, m) ELSE SameF(s, m)
       [] s.k = "dt" -> m.date = s.date /\ m.time = s.time /\ m.off.t = s.off.t /\ m.off.m = s.off.m
       [] s.k = "a" -> Len(s.v) = Len(m.v) /\ \A i \in 1..Len(s.v) : SameVS(s.v[i], m.v[i], ordered, strict)
       [] s.k = "t" ->
            /\ Len(s.v) = Len(m.v)
            /\ \A i \in 1..Len(s.v) : \E j \in 1..Len(m.v) :
                  m.v[j].key = s.v[i].key /\ SameVS(s.v[i].val, m.v[j].val, ordered, strict)
            \* source order of keys; the position of a promoted super-table is free (DESIGN.md 3.5)
            /\ ordered =>
                 LET fixed == {s.v[i].key : i \in {x \in 1..Len(s.v) : ~s.v[x].prom}} IN
                 SelectSeq(KeysOf(s.v), LAMBDA k : k \in fixed) = SelectSeq(KeysOf(m.v), LAMBDA k : k \in fixed)

\* ------------------------------------------------------------------------
\* events
\* ------------------------------------------------------------------------
Report(i, what, detail) ==
  PrintT(ToJson([mismatch |-> i, id |-> Ev[i].id, what |-> what, detail |-> detail]))

\* parse: text, r = <<[fe, res, ordered, tree]...>>
CheckParse(i) ==
  LET e == Ev[i]
      p == ParseDocument(e.text)
  IN \A g \in 1..Len(e.r) :
       LET r == e.r[g] IN
       CASE r.res = "panic" -> Report(i, "panic", r.fe) /\ FALSE
         [] p.res = "u1" -> TRUE        \* outside the claim (class U1), counted by the driver
         [] p.res = "ok" /\ r.res = "ok" ->
              IF SameV(p.tree, r.tree, r.ordered) THEN TRUE
              ELSE Report(i, "tree", [fe |-> r.fe, expected |-> p.tree]) /\ FALSE
         [] p.res = "rej" /\ r.res = "err" -> TRUE
         [] OTHER -> Report(i, "verdict", [fe |-> r.fe, spec |-> p.res, impl |-> r.res, why |-> p.why, at |-> p.at]) /\ FALSE

\* parse_bytes: a byte string that is not valid UTF-8 must be rejected
CheckParseBytes(i) ==
  LET e == Ev[i]
      d == Utf8Decode(e.bytes)
  IN \A g \in 1..Len(e.r) :
       LET r == e.r[g] IN
       IF d.ok THEN TRUE   \* valid UTF-8 is recorded as a `parse` event by the harness
       ELSE IF r.res = "err" THEN TRUE
       ELSE Report(i, "verdict", [fe |-> r.fe, spec |-> "rej", impl |-> r.res, why |-> "utf8", at |-> 0]) /\ FALSE

\* label: self-check of the specification against the labels of toml-test
CheckLabel(i) ==
  LET e == Ev[i]
      p == ParseDocument(e.text)
  IN IF (e.lab = "valid" /\ p.res = "ok") \/ (e.lab = "invalid" /\ p.res = "rej") THEN TRUE
     ELSE Report(i, "label", [lab |-> e.lab, spec |-> p.res, why |-> p.why, at |-> p.at]) /\ FALSE

\* roundtrip (C03): text, r = <<[fe, res, out, out2]...>>; out = print(parse(text)), out2 = print(parse(out))
CheckRoundtrip(i) ==
  LET e == Ev[i]
      p == ParseDocument(e.text)
  IN IF p.res # "ok" THEN TRUE
     ELSE \A g \in 1..Len(e.r) :
       LET r == e.r[g] IN
       IF r.res = "err" THEN TRUE      \* a valid text that is refused is a C01 matter
       ELSE IF r.res # "ok" THEN Report(i, "rt-panic", r.fe) /\ FALSE
       ELSE LET q == ParseDocument(r.out)
                n == Norm(e.text, p)
            IN /\ IF q.res = "ok" THEN TRUE ELSE Report(i, "rt-invalid", [fe |-> r.fe, why |-> q.why, at |-> q.at]) /\ FALSE
               /\ q.res = "ok" =>
                    /\ IF Plain(q.tree) = Plain(p.tree) THEN TRUE ELSE Report(i, "rt-data", [fe |-> r.fe]) /\ FALSE
                    /\ IF AllKept(Comments(e.text, p), Comments(r.out, q)) THEN TRUE ELSE Report(i, "rt-comment", [fe |-> r.fe]) /\ FALSE
                    /\ IF r.out2 = r.out THEN TRUE ELSE Report(i, "rt-fixpoint", [fe |-> r.fe]) /\ FALSE
                    /\ IF Interleaved(p.stmts) \/ r.out = n THEN TRUE
                       \* known finding F08: a table's key spelled more than once is printed like the key that the
                       \* table keeps (KeyImpl predicts the text of every key region, inside inline tables too)
                       ELSE IF HasRepeatedSegment(p.stmts) /\ SameUpToKeySpelling(n, ParseDocument(n), r.out, q)
                               /\ RegionsAsPredicted(n, ParseDocument(n), r.out, q)
                            THEN Report(i, "rt-respelled", [fe |-> r.fe, expected |-> n]) /\ FALSE
                            ELSE Report(i, "rt-exact", [fe |-> r.fe, expected |-> n]) /\ FALSE

\* ---- sub-entry points: Value::from_str, Key::from_str, Key::parse (C01, C04) ----
ResOf(ok) == IF ok THEN "ok" ELSE "err"
WholeValue(t) == LET v == ValueAt(t, 1) IN IF v.ok /\ v.i = Len(t) + 1 THEN [ok |-> TRUE, v |-> v.v] ELSE [ok |-> FALSE, v |-> Dummy]
WholeKey(t) == LET k == SimpleKey(t, 1) IN IF k.ok /\ k.i = Len(t) + 1 THEN [ok |-> TRUE, v |-> k.v] ELSE [ok |-> FALSE, v |-> [s |-> <<>>, sp |-> NoSpan]]
CheckValue(i) ==
  LET e == Ev[i]
      pv == WholeValue(e.text)     \* Value::from_str takes exactly one `val`, without surrounding whitespace
      pk == WholeKey(e.text)
      pp == ParseKeyPathAll(e.text)
  IN /\ IF e.value.res = ResOf(pv.ok) THEN TRUE ELSE Report(i, "value-verdict", [spec |-> ResOf(pv.ok), impl |-> e.value.res]) /\ FALSE
     /\ (pv.ok /\ e.value.res = "ok") =>
          IF SameV(pv.v, e.value.tree, TRUE) THEN TRUE ELSE Report(i, "value-tree", [expected |-> pv.v]) /\ FALSE
     \* the single-value deserializers give the same verdict and value (C13)
     /\ IF e.vde_toml.res = ResOf(pv.ok) THEN TRUE ELSE Report(i, "vde-verdict", [route |-> "toml::de::ValueDeserializer", spec |-> ResOf(pv.ok), impl |-> e.vde_toml.res]) /\ FALSE
     /\ IF e.vde_edit.res = ResOf(pv.ok) THEN TRUE ELSE Report(i, "vde-verdict", [route |-> "toml_edit::de::ValueDeserializer", spec |-> ResOf(pv.ok), impl |-> e.vde_edit.res]) /\ FALSE
     /\ (pv.ok /\ e.vde_toml.res = "ok") => IF SameV(pv.v, e.vde_toml.tree, FALSE) THEN TRUE ELSE Report(i, "vde-tree", [route |-> "toml::de::ValueDeserializer"]) /\ FALSE
     /\ (pv.ok /\ e.vde_edit.res = "ok") => IF SameV(pv.v, e.vde_edit.tree, FALSE) THEN TRUE ELSE Report(i, "vde-tree", [route |-> "toml_edit::de::ValueDeserializer"]) /\ FALSE
     /\ IF e.key.res = ResOf(pk.ok) THEN TRUE ELSE Report(i, "key-verdict", [spec |-> ResOf(pk.ok), impl |-> e.key.res]) /\ FALSE
     /\ (pk.ok /\ e.key.res = "ok") =>
          IF e.key.tree.v = pk.v.s THEN TRUE ELSE Report(i, "key-tree", [expected |-> pk.v.s]) /\ FALSE
     /\ IF e.keypath.res = ResOf(pp.ok) THEN TRUE ELSE Report(i, "keypath-verdict", [spec |-> ResOf(pp.ok), impl |-> e.keypath.res]) /\ FALSE
     /\ (pp.ok /\ e.keypath.res = "ok") =>
          IF /\ Len(e.keypath.tree.v) = Len(pp.v)
             /\ \A j \in 1..Len(pp.v) : e.keypath.tree.v[j].v = pp.v[j].s
          THEN TRUE ELSE Report(i, "keypath-tree", [expected |-> [j \in 1..Len(pp.v) |-> pp.v[j].s]]) /\ FALSE

\* ---- date-times: standalone parser, document parser, printer (C12) ----
SameDt(s, m) == m.k = "dt" /\ m.date = s.date /\ m.time = s.time /\ m.off.t = s.off.t /\ m.off.m = s.off.m
CheckDt(i) ==
  LET e == Ev[i]
      p == ParseDatetime(e.text)
  IN /\ IF e.std.res = ResOf(p.ok) THEN TRUE ELSE Report(i, "dt-std-verdict", [spec |-> ResOf(p.ok), impl |-> e.std.res]) /\ FALSE
     /\ IF e.doc.res = ResOf(p.ok) THEN TRUE ELSE Report(i, "dt-doc-verdict", [spec |-> ResOf(p.ok), impl |-> e.doc.res]) /\ FALSE
     /\ (p.ok /\ e.std.res = "ok") => IF SameDt(p.v, e.std.tree) THEN TRUE ELSE Report(i, "dt-std-fields", [expected |-> p.v]) /\ FALSE
     /\ (p.ok /\ e.doc.res = "ok") => IF SameDt(p.v, e.doc.tree) THEN TRUE ELSE Report(i, "dt-doc-fields", [expected |-> p.v]) /\ FALSE
     \* the printer: only judged for values the specification accepts (others are already violations above)
     /\ (p.ok /\ (e.std.res = "ok" \/ e.doc.res = "ok")) =>
          LET q == ParseDatetime(e.printed) IN
          /\ IF q.ok /\ SameDt(p.v, q.v) THEN TRUE ELSE Report(i, "dt-print", [printed |-> e.printed]) /\ FALSE
          /\ IF e.re_std.res = "ok" /\ SameDt(p.v, e.re_std.tree) THEN TRUE ELSE Report(i, "dt-reparse-std", [printed |-> e.printed]) /\ FALSE
          /\ IF e.re_doc.res = "ok" /\ SameDt(p.v, e.re_doc.tree) THEN TRUE ELSE Report(i, "dt-reparse-doc", [printed |-> e.printed]) /\ FALSE
          /\ IF e.serde.res = "ok" /\ SameDt(p.v, e.serde.tree) THEN TRUE ELSE Report(i, "dt-serde", [printed |-> e.printed]) /\ FALSE

\* ---- numbers: printed literal has the same type and value, and parses back bit-for-bit (C11) ----
CheckNum(i) ==
  LET e == Ev[i]
      pv == WholeValue(e.text)
  IN IF e.pres # "ok" THEN Report(i, "num-panic", e.route) /\ FALSE
     ELSE /\ IF pv.ok /\ pv.v.k = e.orig.k THEN TRUE ELSE Report(i, "num-type", [route |-> e.route, text |-> e.text]) /\ FALSE
          /\ (pv.ok /\ pv.v.k = e.orig.k) =>
               IF (e.orig.k = "i" /\ pv.v.neg = e.orig.neg /\ pv.v.d = e.orig.d)
                  \* the sign of a NaN that goes through serde is documented as discarded (DESIGN.md 3.5)
                  \/ (e.orig.k = "f" /\ e.route = "toml_value_display" /\ e.orig.c = "nan" /\ pv.v.c = "nan")
                  \/ (e.orig.k = "f" /\ pv.v.c = e.orig.c /\ pv.v.neg = e.orig.neg /\ pv.v.d = e.orig.d /\ pv.v.e = e.orig.e)
               THEN TRUE ELSE Report(i, "num-value", [route |-> e.route, text |-> e.text, expected |-> e.orig]) /\ FALSE
          /\ IF e.re.res = "ok" /\ (e.re.tok = e.orig_tok
                                  \/ (e.route = "toml_value_display" /\ e.orig.k = "f" /\ e.orig.c = "nan" /\ e.re.tok \in {"fnan+", "fnan-"}))
             THEN TRUE
             ELSE Report(i, "num-reparse", [route |-> e.route, text |-> e.text, tok |-> e.re.tok, orig |-> e.orig_tok]) /\ FALSE

\* ---- quoting (C10): every offered token is in the language of its position and decodes to s ----
AlwaysOffered == {"basic", "default", "ml_basic", "str_to_toml_key", "str_to_toml_value", "edit_key_display",
                  "edit_value_display", "toml_value_display"}
CheckQuote(i) ==
  LET e == Ev[i] IN
  \A g \in 1..Len(e.q) :
    LET q == e.q[g] IN
    IF ~q.offered THEN
      IF \E x \in 1..Len(q.style) : q.style[x] \in AlwaysOffered
      THEN Report(i, "quote-refused", [s |-> e.s, style |-> q.style]) /\ FALSE ELSE TRUE
    ELSE
      LET dec == IF q.pos = "key" THEN WholeKey(q.token) ELSE WholeValue(q.token)
          good == IF q.pos = "key" THEN dec.ok /\ dec.v.s = e.s ELSE dec.ok /\ dec.v.k = "s" /\ dec.v.v = e.s
      IN /\ IF good THEN TRUE ELSE Report(i, "quote-token", [s |-> e.s, pos |-> q.pos, style |-> q.style, token |-> q.token]) /\ FALSE
         /\ IF q.alone = "same" /\ q.indoc = "same" THEN TRUE
            ELSE Report(i, "quote-impl", [s |-> e.s, pos |-> q.pos, style |-> q.style, token |-> q.token, alone |-> q.alone, indoc |-> q.indoc]) /\ FALSE

\* ---- serde integer conversions are exact or fail (C11) ----
D(n) == NatDigits(n)
\* range of each integer type: <<magnitude of min, max>> as decimal digit sequences
TyRange(ty) ==
  CASE ty = "i8" -> <<D(128), D(127)>>
    [] ty = "u8" -> <<D(0), D(255)>>
    [] ty = "i16" -> <<D(32768), D(32767)>>
    [] ty = "u16" -> <<D(0), D(65535)>>
    [] ty = "i32" -> <<<<2,1,4,7,4,8,3,6,4,8>>, <<2,1,4,7,4,8,3,6,4,7>>>>
    [] ty = "u32" -> <<D(0), <<4,2,9,4,9,6,7,2,9,5>>>>
    [] ty = "i64" -> <<MaxNeg, MaxPos>>
    [] ty = "u64" -> <<D(0), MaxPos>>     \* a TOML integer never exceeds i64::MAX
Fits(ty, lit) == IF lit.neg THEN NatLe(lit.d, TyRange(ty)[1]) ELSE NatLe(lit.d, TyRange(ty)[2])
CheckSint(i) ==
  LET e == Ev[i] IN
  IF e.dir = "out" THEN
    LET fits == I64InRange(e.lit.neg, e.lit.d) IN
    \* lossless or rejected: a value outside i64 must fail; 128-bit types may be refused altogether (C07 judges that)
    IF e.res = "panic" \/ (~fits /\ e.res # "err") \/ (fits /\ e.res # "ok" /\ e.ty \notin {"i128", "u128"})
    THEN Report(i, "sint-out-verdict", [ty |-> e.ty, route |-> e.route, lit |-> e.lit, impl |-> e.res]) /\ FALSE
    ELSE e.res = "ok" =>
         LET p == IF e.route \in {"toml::Value::try_from", "toml::Value::deserialize"} THEN ParseDocument(<<120, 61>> \o e.text) ELSE ParseDocument(e.text) IN
         IF p.res = "ok" /\ \E l \in {p.tree.v[1].val} \cup (IF p.tree.v[1].val.k = "t" THEN {p.tree.v[1].val.v[1].val} ELSE {}) :
                             l.k = "i" /\ l.neg = e.lit.neg /\ l.d = e.lit.d
         THEN TRUE ELSE Report(i, "sint-out-value", [ty |-> e.ty, route |-> e.route, lit |-> e.lit, text |-> e.text]) /\ FALSE
  ELSE
    LET fits == Fits(e.ty, e.lit) IN
    IF e.res # ResOf(fits) THEN Report(i, "sint-in-verdict", [ty |-> e.ty, route |-> e.route, lit |-> e.lit, impl |-> e.res]) /\ FALSE
    ELSE e.res = "ok" => IF e.val.neg = e.lit.neg /\ e.val.d = e.lit.d THEN TRUE
                         ELSE Report(i, "sint-in-value", [ty |-> e.ty, route |-> e.route, lit |-> e.lit, val |-> e.val]) /\ FALSE

\* ---- spans (C14) and located errors (C15) ----
\* code point index (1-based) whose byte offset is b; 0 when b is not a character boundary of the text
RECURSIVE CpAtAcc(_, _, _)
CpAtAcc(offs, b, i) == IF i > Len(offs) THEN 0 ELSE IF offs[i] = b THEN i ELSE IF offs[i] > b THEN 0 ELSE CpAtAcc(offs, b, i + 1)
CpAt(offs, b) == CpAtAcc(offs, b, 1)
SpanWellFormed(sp, offs) == sp = <<>> \/ (Len(sp) = 2 /\ sp[1] <= sp[2] /\ CpAt(offs, sp[1]) > 0 /\ CpAt(offs, sp[2]) > 0)
Within(inner, outer) == inner = <<>> \/ outer = <<>> \/ (outer[1] <= inner[1] /\ inner[2] <= outer[2])
ByteSpan(sp, offs) == <<offs[sp[1]], offs[sp[2]]>>
Slice(t, sp, offs) == SubSeq(t, CpAt(offs, sp[1]), CpAt(offs, sp[2]) - 1)
EntryFor(es, key) == CHOOSE j \in 1..Len(es) : es[j].key = key
HasEntry(es, key) == \E j \in 1..Len(es) : es[j].key = key

\* s: specification value (spans in code point positions), m: projected value with byte spans
RECURSIVE SpansOk(_, _, _, _, _)
SpansOk(t, offs, s, m, parent) ==
  /\ s.k = m.k
  /\ SpanWellFormed(m.sp, offs)
  /\ Within(m.sp, parent)
  /\ (s.sp # NoSpan /\ s.k # "t") => m.sp = ByteSpan(s.sp, offs)
  /\ (s.sp # NoSpan /\ s.k = "t") => (m.sp = <<>> \/ m.sp = ByteSpan(s.sp, offs))
  \* re-parsing the spanned slice on its own yields the same value
  /\ (m.sp # <<>> /\ s.k \notin {"t", "a"}) =>
        LET w == WholeValue(Slice(t, m.sp, offs)) IN w.ok /\ Plain(w.v) = Plain(s)
  /\ (m.sp # <<>> /\ s.k \in {"t", "a"} /\ s.sp # NoSpan) =>
        LET w == WholeValue(Slice(t, m.sp, offs)) IN w.ok /\ Plain(w.v) = Plain(s)
  \* an array of tables (no span in the grammar: its elements are scattered) is reported from the first element's
  \* header to the end of the last element: the elements lie inside it and it starts and ends exactly with them
  /\ (s.k = "a" /\ s.sp = NoSpan /\ Len(m.v) > 0 /\ \A x \in 1..Len(m.v) : m.v[x].sp # <<>>) =>
        /\ m.sp # <<>>                                  \* (also when it has a single element)
        /\ \A x \in 1..Len(m.v) : Within(m.v[x].sp, m.sp)
        /\ m.sp[1] = m.v[1].sp[1] /\ m.sp[2] = m.v[Len(m.v)].sp[2]
  \* a table with a header of its own, or an element of an array of tables: its slice is a piece of document that
  \* starts with that header (complete: "[empty" without its bracket is not)
  \* (such a table always has a span when read from text - also a super-table whose header follows its sub-table)
  /\ (s.k = "t" /\ s.def \in {"header", "elem"} /\ parent # <<0 - 1>>) => m.sp # <<>>
  /\ (s.k = "t" /\ s.def \in {"header", "elem"} /\ m.sp # <<>>) =>
        LET st == Statements(Slice(t, m.sp, offs)) IN
        st.ok /\ Len(st.stmts) >= 1 /\ st.stmts[1].kind = (IF s.def = "elem" THEN "aot" ELSE "std")
  /\ CASE s.k = "a" -> Len(s.v) = Len(m.v) /\ \A x \in 1..Len(s.v) : SpansOk(t, offs, s.v[x], m.v[x], IF s.sp # NoSpan THEN m.sp ELSE <<>>)
       [] s.k = "t" ->
            /\ Len(s.v) = Len(m.v)
            /\ \A x \in 1..Len(m.v) :
                 /\ HasEntry(s.v, m.v[x].key)
                 /\ LET se == s.v[EntryFor(s.v, m.v[x].key)]
                        \* the nearest enclosing span: a table created by dotted keys has none of its own
                        encl == IF m.sp # <<>> THEN m.sp ELSE parent
                        \* syntactic children: entries of an inline table; body key/values of a header table,
                        \* also through the tables that dotted keys create; sub-tables with their own header are not
                        inside == IF s.sp # NoSpan \/ se.val.sp # NoSpan \/ (se.val.k = "t" /\ se.val.def = "dotted") THEN encl ELSE <<>>
                    IN /\ SpanWellFormed(m.v[x].ksp, offs)
                       /\ Within(m.v[x].ksp, IF s.sp # NoSpan THEN m.sp ELSE <<>>)
                       /\ m.v[x].ksp # <<>> =>
                            LET w == WholeKey(Slice(t, m.v[x].ksp, offs)) IN w.ok /\ w.v.s = m.v[x].key
                       /\ SpansOk(t, offs, se.val, m.v[x].val, inside)
       [] OTHER -> TRUE

\* Spanned<T> elements / map keys delivered through serde: only the outermost level carries spans
SpansOkInner(t, offs, s, m) ==
  CASE s.k = "a" /\ m.k = "a" ->
         /\ Len(s.v) = Len(m.v)
         /\ \A x \in 1..Len(s.v) : s.v[x].sp # NoSpan => m.v[x].sp = ByteSpan(s.v[x].sp, offs)
    [] s.k = "t" /\ m.k = "t" ->
         \A x \in 1..Len(m.v) :
           /\ HasEntry(s.v, m.v[x].key)
           /\ SpanWellFormed(m.v[x].ksp, offs)
           /\ LET w == WholeKey(Slice(t, m.v[x].ksp, offs)) IN w.ok /\ w.v.s = m.v[x].key
           /\ LET se == s.v[EntryFor(s.v, m.v[x].key)] IN se.val.sp # NoSpan => m.v[x].val.sp = ByteSpan(se.val.sp, offs)
    [] OTHER -> FALSE

RECURSIVE NoSpans(_)
NoSpans(m) ==
  /\ m.sp = <<>>
  /\ CASE m.k = "a" -> \A x \in 1..Len(m.v) : NoSpans(m.v[x])
       [] m.k = "t" -> \A x \in 1..Len(m.v) : m.v[x].ksp = <<>> /\ NoSpans(m.v[x].val)
       [] OTHER -> TRUE

KindOfTy(ty) == CASE ty \in {"i64", "newtype_i64"} -> {"i"} [] ty \in {"int_array", "newtype_int_array"} -> {"a"} [] ty = "f64" -> {"f", "i"} [] ty = "bool" -> {"b"} [] ty = "string" -> {"s"}
                  [] ty = "datetime" -> {"dt", "t"}  \* Datetime is decoded from a map: a table is rejected for its content, not its kind [] ty \in {"array", "array_spanned"} -> {"a"}
                  [] ty \in {"table", "table_spanned"} -> {"t"} [] ty = "enum" -> {"s", "t"}   \* an externally tagged enum is also read from a one-key table
                  [] ty \in {"enum_array", "enum_tuple_array"} -> {"a"} [] OTHER -> {"s", "i", "f", "b", "dt", "a", "t"}
\* enum targets with the unit variants "a" and "b": the span of the first element that names no variant (<<>> if none)
IsVariant(v) == v.k = "s" /\ v.v \in {<<97>>, <<98>>}
FirstBad(vs, pick(_)) == LET bad == {x \in 1..Len(vs) : ~IsVariant(pick(vs[x])) /\ pick(vs[x]).k = "s"} IN
                         IF bad = {} THEN NoSpan ELSE pick(vs[CHOOSE x \in bad : \A y \in bad : x <= y]).sp
\* integer-array targets (bare and behind a newtype struct): the first element that is not an integer
FirstNonInt(vs) == LET bad == {x \in 1..Len(vs) : vs[x].k # "i"} IN
                   IF bad = {} THEN NoSpan ELSE vs[CHOOSE x \in bad : \A y \in bad : x <= y].sp
BadVariantSpan(ty, kv) ==
  CASE ty \in {"int_array", "newtype_int_array"} /\ kv.k = "a" -> FirstNonInt(kv.v)
    [] ty = "enum" /\ kv.k = "s" /\ ~IsVariant(kv) -> kv.sp
    [] ty = "enum_array" /\ kv.k = "a" /\ (\A x \in 1..Len(kv.v) : kv.v[x].k = "s") -> FirstBad(kv.v, LAMBDA e : e)
    [] ty = "enum_tuple_array" /\ kv.k = "a" /\ (\A x \in 1..Len(kv.v) : kv.v[x].k = "a" /\ Len(kv.v[x].v) = 2 /\ kv.v[x].v[1].k = "s" /\ kv.v[x].v[2].k = "i")
         -> FirstBad(kv.v, LAMBDA e : e.v[1])
    [] OTHER -> NoSpan

CheckSpan(i) ==
  LET e == Ev[i]
      t == e.text
      p == ParseDocument(t)
      offs == Offs(t)
  IN IF p.res # "ok" \/ e.res = "err" THEN TRUE
     ELSE IF e.res # "ok" THEN Report(i, "span-panic", e.res) /\ FALSE
     ELSE
       /\ IF SpansOk(t, offs, p.tree, e.tree, <<>>) THEN TRUE ELSE Report(i, "span-tree", [expected |-> p.tree]) /\ FALSE
       /\ IF NoSpans(e.into_mut) /\ NoSpans(e.docmut) THEN TRUE ELSE Report(i, "span-stale", "into_mut/DocumentMut carries spans") /\ FALSE
       \* the whole document behind Spanned: same verdict and value as without it, a well-formed range
       /\ IF e.root.plain.res = e.root.spanned.res /\ e.root.plain.res # "panic" THEN TRUE
          ELSE Report(i, "span-spanned-verdict", [ty |-> "root table", plain |-> e.root.plain.res, spanned |-> e.root.spanned.res]) /\ FALSE
       /\ (e.root.plain.res = "ok" /\ e.root.spanned.res = "ok") =>
            IF e.root.plain.val = e.root.spanned.val /\ SpanWellFormed(e.root.spanned.sp, offs) THEN TRUE
            ELSE Report(i, "span-spanned-value", [ty |-> "root table"]) /\ FALSE
       /\ \A g \in 1..Len(e.typed) :
            LET y == e.typed[g]
                hasK == HasEntry(p.tree.v, <<107>>)
                kv == p.tree.v[EntryFor(p.tree.v, <<107>>)].val
            IN /\ IF y.plain.res = y.spanned.res /\ y.plain.res # "panic" THEN TRUE
                  \* known finding F13: a table that has no span of its own (created by dotted keys or implicitly
                  \* by a header path) cannot be decoded into Spanned<map>
                  ELSE IF hasK /\ kv.k = "t" /\ kv.sp = NoSpan /\ y.plain.res = "ok" /\ y.spanned.res = "err"
                       THEN Report(i, "span-spanned-spanless-table", [ty |-> y.ty]) /\ FALSE
                  ELSE Report(i, "span-spanned-verdict", [ty |-> y.ty, plain |-> y.plain.res, spanned |-> y.spanned.res]) /\ FALSE
               /\ (y.plain.res = "ok" /\ y.spanned.res = "ok") =>
                    /\ IF y.plain.val = y.spanned.val THEN TRUE ELSE Report(i, "span-spanned-value", [ty |-> y.ty]) /\ FALSE
                    /\ IF /\ SpanWellFormed(y.spanned.sp, offs)
                          /\ (hasK /\ kv.sp # NoSpan) => y.spanned.sp = ByteSpan(kv.sp, offs)
                          /\ (hasK /\ y.ty \in {"array_spanned", "table_spanned"}) => SpansOkInner(t, offs, kv, y.spanned.inner)
                       THEN TRUE ELSE Report(i, "span-spanned-range", [ty |-> y.ty, sp |-> y.spanned.sp]) /\ FALSE
               \* the editable-document route agrees with the text route (C13) and locates errors by key path (C15)
               \* (targets holding Spanned<..> cannot be decoded from an editable document: it has no spans)
               /\ IF y.from_docmut.res \in {"none"} \/ y.ty \in {"array_spanned", "table_spanned"} \/ y.from_docmut.res = y.plain.res THEN TRUE
                  ELSE Report(i, "span-docmut-verdict", [ty |-> y.ty, text_route |-> y.plain.res, docmut |-> y.from_docmut.res]) /\ FALSE
               /\ (y.from_docmut.res = "ok" /\ y.plain.res = "ok") =>
                    IF y.from_docmut.val = y.plain.val THEN TRUE ELSE Report(i, "span-docmut-value", [ty |-> y.ty]) /\ FALSE
               /\ (y.from_docmut.res = "err" /\ hasK /\ (kv.k \notin KindOfTy(y.ty) \/ BadVariantSpan(y.ty, kv) # NoSpan)) =>
                    IF y.from_docmut.span = <<>> /\ FindFrom(y.from_docmut.rendered, <<105, 110, 32, 96, 107, 96>>, 1) > 0
                    THEN TRUE ELSE Report(i, "err-keypath-location", [ty |-> y.ty, span |-> y.from_docmut.span, rendered |-> y.from_docmut.rendered]) /\ FALSE
               \* C14 / C15: the route through str::parse::<toml_edit::de::Deserializer>() has the source text: same
               \* verdict, value and error location as from_str
               /\ IF y.de_fromstr.res = y.plain.res /\ (y.plain.res = "ok" => y.de_fromstr.val = y.plain.val)
                     /\ (y.plain.res = "err" => y.de_fromstr.span = y.plain.err.span)
                  THEN TRUE ELSE Report(i, "err-type-location", [ty |-> y.ty, route |-> "FromStr for toml_edit::de::Deserializer",
                                                                   plain |-> y.plain.err, got |-> y.de_fromstr]) /\ FALSE
               \* C15: an unknown enum variant is located at the string that names it
               /\ (hasK /\ BadVariantSpan(y.ty, kv) # NoSpan) =>
                    IF y.plain.res = "err" /\ y.plain.err.msg_nonempty /\ y.plain.err.span = ByteSpan(BadVariantSpan(y.ty, kv), offs)
                    THEN TRUE ELSE Report(i, "err-type-location", [ty |-> y.ty, err |-> y.plain.err, expected |-> ByteSpan(BadVariantSpan(y.ty, kv), offs)]) /\ FALSE
               \* C15: a type mismatch is located at the offending value
               /\ (y.plain.res = "err" /\ hasK /\ kv.k \notin KindOfTy(y.ty)) =>
                    IF /\ y.plain.err.msg_nonempty
                       /\ SpanWellFormed(y.plain.err.span, offs)
                       /\ kv.sp # NoSpan => y.plain.err.span = ByteSpan(kv.sp, offs)
                       \* an array of tables: the range the document reports for it (C14 pins that range)
                       /\ (kv.k = "a" /\ kv.sp = NoSpan /\ HasEntry(e.tree.v, <<107>>)) =>
                            LET ms == e.tree.v[EntryFor(e.tree.v, <<107>>)].val.sp IN ms # <<>> => y.plain.err.span = ms
                    THEN TRUE ELSE Report(i, "err-type-location", [ty |-> y.ty, err |-> y.plain.err]) /\ FALSE

\* line (1-based) and column (1-based, in characters) of code point position i; at end of input one past the
\* last character, on that character's line
RECURSIVE LineColAcc(_, _, _, _, _)
LineColAcc(t, i, j, line, col) == IF j >= i THEN <<line, col>>
                                   ELSE IF t[j] = 10 THEN LineColAcc(t, i, j + 1, line + 1, 1) ELSE LineColAcc(t, i, j + 1, line, col + 1)
LineCol(t, i) == IF Len(t) = 0 THEN <<1, 1>>
                 ELSE IF i <= Len(t) THEN LineColAcc(t, i, 1, 1, 1)
                 ELSE LET lc == LineColAcc(t, Len(t), 1, 1, 1) IN <<lc[1], lc[2] + 1>>

\* every member is evaluated (a conjunction would stop reporting at the first FALSE)
AllTrue(S) == S \subseteq {TRUE}
CheckErr(i) ==
  LET e == Ev[i]
      t == e.text
      offs == Offs(t)
      IsCtl(c) == (c >= 0 /\ c < 32 /\ c # 9 /\ c # 10) \/ c = 127
  IN AllTrue({
       LET r == e.errs[g] IN
       AllTrue({
          IF r.msg_nonempty THEN TRUE
          \* known finding F12: no message when the parser stops at a control character (incl. a bare CR), right
          \* after one (inside an array the comment parser has already stepped over it), or at the end of input
          ELSE IF r.span # <<>> /\ SpanWellFormed(r.span, offs) /\
                  LET cp == CpAt(offs, r.span[1]) c == At(t, cp) prev == At(t, cp - 1) IN
                  cp > Len(t) \/ IsCtl(c) \/ IsCtl(prev)
               THEN Report(i, "err-empty-message-at-control-or-eof", [fe |-> r.fe, span |-> r.span]) /\ FALSE
          ELSE Report(i, "err-empty-message", [fe |-> r.fe, span |-> r.span]) /\ FALSE,
          IF ~r.render_panic THEN TRUE ELSE Report(i, "err-render-panic", [fe |-> r.fe]) /\ FALSE,
          IF SpanWellFormed(r.span, offs) THEN TRUE ELSE Report(i, "err-span", [fe |-> r.fe, span |-> r.span]) /\ FALSE,
          (r.span # <<>> /\ SpanWellFormed(r.span, offs)) =>
            IF r.linecol = LineCol(t, CpAt(offs, r.span[1])) THEN TRUE
            ELSE Report(i, "err-linecol", [fe |-> r.fe, span |-> r.span, impl |-> r.linecol, spec |-> LineCol(t, CpAt(offs, r.span[1]))]) /\ FALSE})
       : g \in 1..Len(e.errs)})

\* ---- C04: every call of every entry point returns (ok or err) within the budget ----
\* The call/return protocol has no action for panic, abort or timeout: an event listing one is rejected.
CheckApi(i) ==
  LET e == Ev[i] IN
  IF e.bad = <<>> /\ e.calls > 0 THEN TRUE ELSE Report(i, "api-bad", [bad |-> e.bad, calls |-> e.calls]) /\ FALSE

\* ---- C05: nesting patterns instantiated at the measured recursion limit ----
CheckDepth(i) ==
  LET e == Ev[i]
      p == e.pat
  IN /\ IF (MustAccept(p) \/ MustAcceptAt(p, e.L)) => e.res = "ok" THEN TRUE ELSE Report(i, "depth-must-accept", [pat |-> p, res |-> e.res]) /\ FALSE
     /\ IF e.res = "err" => e.limit_err THEN TRUE ELSE Report(i, "depth-not-a-limit-error", [pat |-> p]) /\ FALSE
     /\ IF e.res \in {"ok", "err"} THEN TRUE ELSE Report(i, "depth-panic", [pat |-> p, res |-> e.res]) /\ FALSE
     /\ e.res = "ok" =>
          /\ IF e.depth >= StructDepth(p, e.L) THEN TRUE ELSE Report(i, "depth-measure", [pat |-> p, depth |-> e.depth]) /\ FALSE
          /\ IF e.depth <= Bound(e.L) + 2 THEN TRUE ELSE Report(i, "depth-unbounded", [pat |-> p, depth |-> e.depth, bound |-> Bound(e.L)]) /\ FALSE
     /\ IF e.ops_failed = <<>> THEN TRUE ELSE Report(i, "depth-op-failed", [pat |-> p, ops |-> e.ops_failed]) /\ FALSE

\* ---- C16: call histories on the real containers, validated against the Containers step relations ----
\* (set simulation: the specification states compatible with everything observed so far)
SeqToSet(q) == {q[x] : x \in 1..Len(q)}
FixOp(o) == [op |-> o.op, k |-> o.k, v |-> o.v, k2 |-> o.k2, ks |-> SeqToSet(o.ks), i |-> o.i, vs |-> SeqToSet(o.vs), v2 |-> o.v2]
HKeys == {"a", "b", "c"}
IsSeqK(kind) == kind \in {"array", "aot"}
StepOutcomes(kind, s, o) ==
  IF IsSeqK(kind) THEN (IF SeqEnabled(s, o) THEN SeqApply(s, o) ELSE {}) ELSE MapApply(kind, s, o)
ObsOf(kind, s) == IF IsSeqK(kind) THEN SeqObs(s) ELSE MapObs(s, HKeys)
SameObs(kind, a, b) ==
  /\ a.len = b.len /\ a.empty = b.empty /\ a.iter = b.iter
  \* b = recorded; placeholders never show up in the printed output (what else is printed is C06's matter)
  /\ IsSeqK(kind) \/ (a.get = b.get /\ a.has = b.has /\ b.owned = a.iter /\ b.iter_mut = a.iter /\ b.rev = [x \in 1..Len(a.iter) |-> a.iter[Len(a.iter) + 1 - x]] /\ \A x \in 1..Len(b.printed) : \E y \in 1..Len(a.printed) : a.printed[y] = b.printed[x])
RECURSIVE HistSim(_, _, _, _)
HistSim(kind, states, ops, j) ==
  IF j > Len(ops) THEN 0
  ELSE IF ops[j].panic THEN j
  ELSE LET o == FixOp(ops[j])
           nxt == UNION {{r.m : r \in {x \in StepOutcomes(kind, s, o) : x.ret = ops[j].ret /\ SameObs(kind, ObsOf(kind, x.m), ops[j].obs)}} : s \in states}
       IN IF nxt = {} THEN j ELSE HistSim(kind, nxt, ops, j + 1)
CheckHist(i) ==
  LET e == Ev[i]
      bad == HistSim(e.kind, {<<>>}, e.ops, 1)
  IN IF bad = 0 THEN TRUE
     ELSE Report(i, IF e.ops[bad].panic THEN "hist-panic" ELSE "hist-step",
                 [kind |-> e.kind, step |-> bad, op |-> e.ops[bad].op, k |-> e.ops[bad].k, ret |-> e.ops[bad].ret]) /\ FALSE

\* ---- C07 / C13 / C17: serde routes against SerdeModel.Enc ----
\* (every conjunct is evaluated, so that each property gets its own report: sets are built eagerly)
CheckSerde(i) ==
  LET e == Ev[i]
      exp == Root(e.sdm)
      main == e.enc[1]
      encOk(g) ==
          LET r == e.enc[g] IN
          IF r.res = "panic" THEN Report(i, "serde-enc-panic", [route |-> r.route]) /\ FALSE
          ELSE IF exp.st = "err" THEN
            (IF r.res = "err" THEN TRUE ELSE Report(i, "serde-enc-unsupported-accepted", [route |-> r.route, why |-> exp.why, text |-> r.text]) /\ FALSE)
          \* an enum variant at the document root is a documented unsupported shape: either outcome is allowed
          ELSE IF r.res = "err" /\ RootIsStructVariant(e.sdm) THEN TRUE
          ELSE IF r.res = "err" THEN Report(i, "serde-enc-unexpected-error", [route |-> r.route, ty |-> e.ty]) /\ FALSE
          ELSE LET p == ParseDocument(r.text) IN
               IF p.res = "ok" /\ SameVS(exp.v, p.tree, FALSE, TRUE) THEN TRUE
               ELSE Report(i, "serde-enc-text", [route |-> r.route, text |-> r.text, valid |-> p.res, expected |-> Plain(exp.v)]) /\ FALSE
      decOk(g) ==
          LET r == e.dec[g] IN
          IF r.res = "ok" /\ r.same THEN TRUE ELSE Report(i, "serde-dec", [route |-> r.route, res |-> r.res, same |-> r.same]) /\ FALSE
      vdecOk(g) ==
          LET r == e.vdec[g] IN
          IF r.res = "ok" /\ r.same THEN TRUE ELSE Report(i, "serde-dec", [route |-> r.route, res |-> r.res, same |-> r.same]) /\ FALSE
      againOk == IF e.again.res = "ok" /\ e.again.text = main.text THEN TRUE ELSE Report(i, "serde-nondeterministic", "to_string twice") /\ FALSE
      fixedOk == IF e.fixed.res = "ok" /\ e.fixed.text = main.text THEN TRUE ELSE Report(i, "serde-fixpoint", [text |-> main.text, second |-> e.fixed.text]) /\ FALSE
      tfOk ==
        LET t == e.try_from IN
        IF t.res = "panic" THEN Report(i, "serde-try_from", [why |-> "panic"]) /\ FALSE
        ELSE IF Enc(e.sdm).st # "ok" THEN (IF t.res = "err" THEN TRUE ELSE Report(i, "serde-try_from", [why |-> "unsupported shape accepted"]) /\ FALSE)
        ELSE IF t.res = "ok" /\ SameVS(Enc(e.sdm).v, t.tree, FALSE, TRUE) THEN TRUE
        ELSE Report(i, "serde-try_from", [why |-> "tree", res |-> t.res, expected |-> Plain(Enc(e.sdm).v)]) /\ FALSE
  IN AllTrue({AllTrue({encOk(g) : g \in 1..Len(e.enc)})}
             \cup (IF exp.st = "ok" /\ main.res = "ok"
                   THEN {AllTrue({decOk(g) : g \in 1..Len(e.dec)}), againOk, fixedOk} ELSE {})
             \* the single-value routes: whenever the value is encodable as a value at all
             \cup (IF Enc(e.sdm).st = "ok" /\ e.try_from.res = "ok" THEN {AllTrue({vdecOk(g) : g \in 1..Len(e.vdec)})} ELSE {})
             \cup {tfOk})

\* ---- C20: visitor callback logs against Walk.Expected ----
CallsOf(log) == [j \in 1..Len(log) |-> [kind |-> log[j].kind, path |-> log[j].path]]
CheckVisit(i) ==
  LET e == Ev[i]
      p == ParseDocument(e.text)
  IN IF p.res # "ok" THEN TRUE
     ELSE IF e.res # "ok" THEN Report(i, "visit-panic", e.res) /\ FALSE
     ELSE LET exp == Expected(p.tree)
              proms == PromPaths(p.tree, <<>>)
              okLog(l) == IF proms = {} THEN exp = CallsOf(l)
                          ELSE SameBag(exp, CallsOf(l)) /\ Outside(exp, proms) = Outside(CallsOf(l), proms)
          IN AllTrue({
               IF okLog(e.log) THEN TRUE ELSE Report(i, "visit-log", [which |-> "Visit", expected |-> exp]) /\ FALSE,
               IF okLog(e.logmut) THEN TRUE ELSE Report(i, "visit-log", [which |-> "VisitMut", expected |-> exp]) /\ FALSE,
               \* after mutable indexing has left a placeholder in every standard table: the same walks
               IF okLog(e.log_touched) THEN TRUE ELSE Report(i, "visit-log", [which |-> "Visit after placeholders", expected |-> exp]) /\ FALSE,
               IF okLog(e.logmut_touched) THEN TRUE ELSE Report(i, "visit-log", [which |-> "VisitMut after placeholders", expected |-> exp]) /\ FALSE,
               IF e.unchanged THEN TRUE ELSE Report(i, "visit-mut-changed", "a counting VisitMut changed the document") /\ FALSE,
               LET q == ParseDocument(e.rewritten.integer) IN
                 IF q.res = "ok" /\ Plain(q.tree) = Rewrite(p.tree, "i", [k |-> "i", neg |-> FALSE, d |-> <<4, 2>>]) THEN TRUE
                 ELSE Report(i, "visit-rewrite", [kind |-> "integer", text |-> e.rewritten.integer]) /\ FALSE,
               LET q == ParseDocument(e.rewritten.string) IN
                 IF q.res = "ok" /\ Plain(q.tree) = Rewrite(p.tree, "s", [k |-> "s", v |-> <<88>>]) THEN TRUE
                 ELSE Report(i, "visit-rewrite", [kind |-> "string", text |-> e.rewritten.string]) /\ FALSE,
               LET q == ParseDocument(e.rewritten.float) IN
                 IF q.res = "ok" /\ Plain(q.tree) = Rewrite(p.tree, "f", [k |-> "f", c |-> "fin", neg |-> FALSE, d |-> <<5>>, e |-> 0 - 1]) THEN TRUE
                 ELSE Report(i, "visit-rewrite", [kind |-> "float", text |-> e.rewritten.float]) /\ FALSE})

\* ---- C06: documents assembled through the construction API ----
\* m: expected tree in plain format (from BuildDef.ExpectedTree), s: tree decoded by the specification
RECURSIVE SameBuilt(_, _, _)
SameBuilt(s, m, ordered) ==
  /\ s.k = m.k
  /\ CASE s.k = "s" -> s.v = m.v
       [] s.k = "i" -> s.neg = m.neg /\ s.d = m.d
       [] s.k = "b" -> s.v = m.v
       \* toml::Value / toml::Table print through the serde serializer, which discards the sign of a NaN (documented)
       [] s.k = "f" -> s.c = m.c /\ (s.neg = m.neg \/ (~ordered /\ s.c = "nan")) /\ s.d = m.d /\ s.e = m.e
       [] s.k = "dt" -> s.date = m.date /\ s.time = m.time /\ s.off.t = m.off.t /\ s.off.m = m.off.m
       [] s.k = "a" -> Len(s.v) = Len(m.v) /\ \A x \in 1..Len(s.v) : SameBuilt(s.v[x], m.v[x], ordered)
       [] s.k = "t" ->
            /\ Len(s.v) = Len(m.v)
            /\ IF ordered THEN \A x \in 1..Len(s.v) : s.v[x].key = m.v[x].key /\ SameBuilt(s.v[x].val, m.v[x].val, ordered)
               ELSE \A x \in 1..Len(m.v) : \E y \in 1..Len(s.v) : s.v[y].key = m.v[x].key /\ SameBuilt(s.v[y].val, m.v[x].val, ordered)
CheckBuild(i) ==
  LET e == Ev[i]
      exp == ExpectedTree(e.shape)
  IN AllTrue({
       LET r == e.r[g] IN
       IF r.res # "ok" THEN Report(i, "build-panic", [route |-> r.route]) /\ FALSE
       ELSE LET p == IF r.as_value
                     THEN (LET w == WholeValue(r.text) IN [res |-> IF w.ok THEN "ok" ELSE "rej", tree |-> w.v, why |-> "value", at |-> 0])
                     ELSE ParseDocument(r.text) IN
            AllTrue({
              IF p.res = "ok" THEN TRUE ELSE Report(i, "build-invalid", [route |-> r.route, text |-> r.text, why |-> p.why, at |-> p.at]) /\ FALSE,
              IF p.res # "ok" \/ SameBuilt(p.tree, exp, r.ordered) THEN TRUE ELSE Report(i, "build-tree", [route |-> r.route, text |-> r.text, expected |-> exp]) /\ FALSE,
              IF r.text = r.text2 THEN TRUE ELSE Report(i, "build-nondeterministic", [route |-> r.route]) /\ FALSE})
       : g \in 1..Len(e.r)})

\* ---- C19: the table built by toml!{...} at compile time equals the parsed table ----
CheckMacro(i) ==
  LET e == Ev[i]
      p == ParseDocument(e.text)
  IN IF p.res # "ok" THEN TRUE
     ELSE IF e.macro_panic THEN Report(i, "macro-panic", "the expansion of toml!{...} panicked at run time") /\ FALSE
     ELSE AllTrue({
       IF SameV(p.tree, e.macro, FALSE) THEN TRUE ELSE Report(i, "macro-tree", [expected |-> Plain(p.tree)]) /\ FALSE,
       IF e.parsed_ok /\ SameV(p.tree, e.parsed, FALSE) THEN TRUE ELSE Report(i, "macro-parsed-tree", [ok |-> e.parsed_ok]) /\ FALSE})

\* ---- C08: structural edits through the API, the printed text after every step ----
\* retain(|..| not this one) is a removal spelled through the predicate API: same contract
EditOpName(n) == CASE n = "retain_not" -> "remove" [] n = "array_retain_not" -> "array_remove" [] n = "aot_retain_not" -> "aot_remove" [] OTHER -> n
FixEditOp(o) == [op |-> EditOpName(o.op), path |-> o.path, key |-> o.key, v |-> o.v, i |-> o.i]
RECURSIVE EditSteps(_, _, _, _, _)
\* prev = text before step j; returns TRUE when every remaining step conforms
\* loose0 = an earlier step created a table through the API (it has no position: sections may move as wholes)
EditSteps(i, steps, j, prev, loose0) ==
  IF j > Len(steps) THEN TRUE
  ELSE LET st == steps[j]
           o == FixEditOp(st)
           p0 == ParseDocument(prev)
           \* tables without a position: made through the API, or implicit ones that become visible when they
           \* receive a pair (they are printed after whichever table the map visits before them)
           loose == loose0 \/ (o.op = "insert" /\ o.v.k = "t") \/ o.op \in {"to_table", "aot_push"}
                    \/ (p0.res = "ok" /\ LET tb == GetAt(p0.tree, o.path) IN tb.k = "t" /\ tb.def = "implicit")
       IN IF st.res = "skip" THEN TRUE          \* the API has no such operation at this position (e.g. push on a table)
          ELSE IF st.res # "ok" THEN Report(i, "edit-panic", [step |-> j, op |-> o.op]) /\ FALSE
          ELSE LET pp == ParseDocument(prev)
                   pn == ParseDocument(st.text)
               IN IF pp.res # "ok" THEN TRUE
                  ELSE IF ~Enabled(Plain(pp.tree), o) THEN Report(i, "edit-not-enabled", [step |-> j, op |-> o.op]) /\ FALSE
                  \* known finding F21: the key of an inline table keeps the comment / blank lines above its pair when
                  \* the value is turned into a standard table, and the header prints them inside the brackets
                  ELSE IF pn.res # "ok" /\ o.op = "to_table"
                          /\ \E x \in 1..Len(KeyPrefixOf(prev, pp, Append(o.path, o.key))) : KeyPrefixOf(prev, pp, Append(o.path, o.key))[x] \notin {32, 9}
                       THEN Report(i, "edit-invalid-to-table-key-decor", [step |-> j, op |-> o.op, path |-> o.path, key |-> o.key]) /\ FALSE
                  ELSE IF pn.res # "ok" THEN Report(i, "edit-invalid", [step |-> j, op |-> o.op, text |-> st.text, why |-> pn.why, at |-> pn.at]) /\ FALSE
                  ELSE LET before == Plain(pp.tree)
                           after == Plain(pn.tree)
                           \* a table that was implicit (or absent) in the start document is spelled with a header only
                           \* while it has pairs of its own (visit_table hides implicit tables without pairs)
                           t0 == LET q == ParseDocument(Ev[i].start) IN IF q.res = "ok" THEN GetAt(q.tree, o.path) ELSE Missing
                           ta == GetAt(pn.tree, o.path)
                           hv == IF (t0.k = "missing" \/ (t0.k = "t" /\ t0.def \in {"implicit", "dotted"}))
                                    /\ (ta.k # "t" \/ BodyKeys(ta.v) = <<>>) THEN o.path ELSE NoPath
                           groups == PieceGroupsH(prev, pp, o, hv)
                           pieces == FlattenG(groups)
                           missG == IF loose /\ o.op # "sort_values" THEN FirstMissingG(st.text, groups, 1) ELSE <<0, 0>>
                           missF == IF loose /\ o.op # "sort_values" THEN 0 ELSE FirstMissing(st.text, pieces, 1, 1, o.op # "sort_values")
                           lost == IF missG[1] # 0 THEN groups[missG[1]][missG[2]] ELSE IF missF # 0 THEN pieces[missF] ELSE <<>>
                           miss == IF missG[1] # 0 \/ missF # 0 THEN 1 ELSE 0
                       IN /\ AllTrue({
                               IF SameContent(ApplyOp(before, o), after) THEN TRUE
                               \* known finding F20: a dotted-key table that loses its last key vanishes from the printed document
                               ELSE IF o.op \in {"remove", "clear", "aot_remove"} /\ GetAt(ApplyOp(before, o), o.path).v = <<>>
                                       /\ SameContent(DropEmptyTables(ApplyOp(before, o)), DropEmptyTables(after))
                                    THEN Report(i, "edit-content-emptied-table-vanishes", [step |-> j, op |-> o.op, path |-> o.path, key |-> o.key]) /\ FALSE
                               ELSE Report(i, "edit-content", [step |-> j, op |-> o.op, path |-> o.path, key |-> o.key, text |-> st.text]) /\ FALSE,
                               \* a replaced key whose value changes between table and value has to move (values precede tables)
                               IF (IF o.op = "sort_values" THEN SortOrd(pp.tree, pn.tree, o.path, "to", loose) ELSE SurvivorsOrderedL(pp.tree, pn.tree, loose))
                                  \/ ((o.op \in {"to_inline", "to_table"} \/ (o.op = "insert" /\ (o.v.k = "t" \/ GetAt(before, Append(o.path, o.key)).k \in {"t", "a"})))
                                      /\ SurvivorsOrderedL(ApplyOp(pp.tree, [o EXCEPT !.op = "remove"]), ApplyOp(pn.tree, [o EXCEPT !.op = "remove"]), loose))
                               THEN TRUE
                               ELSE Report(i, "edit-order", [step |-> j, op |-> o.op, path |-> o.path, key |-> o.key, text |-> st.text]) /\ FALSE,
                               IF miss = 0 THEN TRUE
                               ELSE Report(i, "edit-verbatim", [step |-> j, op |-> o.op, path |-> o.path, key |-> o.key, lost |-> lost, text |-> st.text]) /\ FALSE})
                          /\ EditSteps(i, steps, j + 1, st.text, loose)
CheckEdit(i) == EditSteps(i, Ev[i].steps, 1, Ev[i].start, FALSE)

\* ---- model drift: the implementation-shaped array editor (ArrayImpl) against the text of the edited array ----
\* mem = the model state of the arrays edited earlier in this history (the trailing-comma flag of an array that
\* was emptied is not visible in the text; everything else is re-read from the text before the step)
RECURSIVE ArrSteps(_, _, _, _, _)
ArrSteps(i, steps, j, prev, mem) ==
  IF j > Len(steps) THEN TRUE
  ELSE LET st == steps[j]
           o == FixEditOp(st)
           at == Append(o.path, o.key)
           \* any other operation that names the array, its parents or its elements makes the remembered state stale
           keep == {p \in DOMAIN mem : ~IsPrefixPath(p, o.path) /\ ~IsPrefixPath(o.path, p) /\ ~IsPrefixPath(at, p)}
           mem1 == [p \in keep |-> mem[p]]
       IN IF st.res # "ok" THEN TRUE
          ELSE IF o.op \notin {"array_push", "array_insert", "array_replace", "array_remove", "array_fmt"} THEN ArrSteps(i, steps, j + 1, st.text, mem1)
          ELSE LET pp == ParseDocument(prev)
                   pn == ParseDocument(st.text)
               IN IF pp.res # "ok" \/ pn.res # "ok" THEN TRUE
                  ELSE LET b == GetAt(pp.tree, at)
                           a == GetAt(pn.tree, at)
                       IN IF b.k # "a" \/ a.k # "a" \/ b.sp = NoSpan \/ a.sp = NoSpan THEN ArrSteps(i, steps, j + 1, st.text, mem1)
                          ELSE LET m0 == IF at \in DOMAIN mem THEN mem[at] ELSE FromText(prev, b)
                                   mo == [op |-> o.op, i |-> o.i, txt |-> <<57>>]
                                   real == SubSeq(st.text, a.sp[1], a.sp[2] - 1)
                               IN IF ~ArrEnabled(m0, mo) THEN ArrSteps(i, steps, j + 1, st.text, mem1)
                                  ELSE LET m1 == ArrApply(m0, mo)
                                           memN == [p \in (DOMAIN mem) \cup {at} |-> IF p = at THEN m1 ELSE mem[p]]
                                       IN IF DropCr(ArrPrint(m1)) = DropCr(real) THEN ArrSteps(i, steps, j + 1, st.text, memN)
                                          ELSE Report(i, "drift-array", [step |-> j, op |-> o.op, model |-> ArrPrint(m1), impl |-> real]) /\ FALSE
CheckArrayDrift(i) == ArrSteps(i, Ev[i].steps, 1, Ev[i].start, <<>>)

RECURSIVE FoldPSV(_, _, _)
FoldPSV(ps, h, i) == IF i > Len(h) \/ ~ps.ok THEN ps ELSE FoldPSV(ApplyPS(ps, h[i]), h, i + 1)

\* ---- model drift: the implementation-shaped printer (EncodeImpl) against the statement order of the real one ----
\* the start document as parsed by ParseStateImpl, then insert / remove on standard-table positions carried through
\* the history on the in-memory tree; other operations (or positions inside values) end the comparison
RECURSIVE EncSteps(_, _, _, _)
EncSteps(i, steps, j, root) ==
  IF j > Len(steps) THEN TRUE
  ELSE LET st == steps[j] IN
       IF st.res # "ok" \/ st.op \notin {"insert", "remove"} \/ st.path \notin TblPaths(root, <<>>) THEN TRUE
       ELSE LET m == [op |-> st.op, key |-> st.key, it |-> IF st.v.k = "t" THEN NewApiTable(st.v.v[1].val) ELSE ValItem(st.v)]
                r2 == EditAt(root, st.path, m)
                real == Statements(st.text)
            IN IF ~real.ok THEN TRUE
               ELSE IF Shape(PrintStmts(r2)) = Shape(real.stmts) THEN EncSteps(i, steps, j + 1, r2)
               ELSE Report(i, "drift-encode", [step |-> j, op |-> st.op, model |-> Shape(PrintStmts(r2)), impl |-> Shape(real.stmts)]) /\ FALSE
CheckEncodeDrift(i) ==
  LET s == Statements(Ev[i].start) IN
  IF ~s.ok THEN TRUE
  ELSE LET ps0 == FoldPSV(InitPS, s.stmts, 1)
           ps == IF ps0.ok THEN IntoDocument(ps0) ELSE ps0
       IN IF ~ps.ok THEN TRUE
          ELSE IF Shape(PrintStmts(ps.root)) # Shape(s.stmts)
               THEN Report(i, "drift-encode", [step |-> 0, op |-> "print", model |-> Shape(PrintStmts(ps.root)), impl |-> Shape(s.stmts)]) /\ FALSE
          ELSE EncSteps(i, Ev[i].steps, 1, ps.root)

\* ---- C18: feature configurations change performance or ordering only ----
\* ORDER: preserve_order makes toml::Table iterate and print in insertion order; LIMIT: unbounded lifts the recursion limit
HasPreserveOrder(cell) == cell \in {"preserve_order", "perf+preserve_order"}
CheckDigest(i) ==
  LET e == Ev[i]
      same(S) == \A a, b \in S : e.cells[a].d = e.cells[b].d
      all == 1..Len(e.cells)
  IN CASE e.kind = "invariant" ->
            IF same(all) THEN TRUE ELSE Report(i, "digest-differs", [item |-> e.item, kind |-> e.kind, cells |-> e.cells]) /\ FALSE
       [] e.kind = "order" ->
            IF same({a \in all : HasPreserveOrder(e.cells[a].cell)}) /\ same({a \in all : ~HasPreserveOrder(e.cells[a].cell)}) THEN TRUE
            ELSE Report(i, "digest-differs", [item |-> e.item, kind |-> e.kind, cells |-> e.cells]) /\ FALSE
       \* ORDER against a reference: insertion order (of the document, and through remove / insert / re-insert on
       \* the map) with preserve_order, sorted order without; "both" when the two coincide, "none" for rejected texts
       [] e.kind = "orderlaw" ->
            IF \A a \in all : e.cells[a].d \in (IF HasPreserveOrder(e.cells[a].cell)
                                                  THEN {"none", "both/both", "insertion/insertion", "both/insertion", "insertion/both"}
                                                  ELSE {"none", "both/both", "sorted/sorted", "both/sorted", "sorted/both"})
            THEN TRUE ELSE Report(i, "digest-differs", [item |-> e.item, kind |-> e.kind, cells |-> e.cells]) /\ FALSE
       [] e.kind = "depth" ->
            IF same({a \in all : e.cells[a].cell # "unbounded"}) THEN TRUE
            ELSE Report(i, "digest-differs", [item |-> e.item, kind |-> e.kind, cells |-> e.cells]) /\ FALSE
CheckCfgBuild(i) == IF Ev[i].ok THEN TRUE ELSE Report(i, "config-does-not-build", [cell |-> Ev[i].cell]) /\ FALSE

\* ---- model drift: the implementation-shaped parser state against the real parser's flags ----
CheckFlags(i) ==
  LET e == Ev[i]
      s == Statements(e.text)
  IN IF ~s.ok THEN TRUE
     ELSE LET ps0 == FoldPSV(InitPS, s.stmts, 1)
              ps == IF ps0.ok THEN IntoDocument(ps0) ELSE ps0
          IN IF ps.ok # (e.res = "ok") THEN Report(i, "drift-verdict", [model |-> ps.ok, impl |-> e.res]) /\ FALSE
             ELSE ps.ok =>
                  LET fl == Flags(ps.root, <<>>) IN
                  IF Len(fl) = Len(e.flags) /\ \A x \in 1..Len(fl) :
                       /\ fl[x].path = e.flags[x].path /\ fl[x].implicit = e.flags[x].implicit
                       /\ fl[x].dotted = e.flags[x].dotted /\ fl[x].pos = e.flags[x].pos
                  THEN TRUE ELSE Report(i, "drift-flags", [model |-> fl, impl |-> e.flags]) /\ FALSE

U1Note(i) == Ev[i].ev = "parse" /\ ParseDocument(Ev[i].text).res = "u1" => PrintT(ToJson([u1 |-> i]))

CheckEvent(i) ==
  CASE Ev[i].ev = "parse" -> CheckParse(i) /\ U1Note(i)
    [] Ev[i].ev = "parse_bytes" -> CheckParseBytes(i)
    [] Ev[i].ev = "label" -> CheckLabel(i)
    [] Ev[i].ev = "roundtrip" -> CheckRoundtrip(i)
    [] Ev[i].ev = "value" -> CheckValue(i)
    [] Ev[i].ev = "dt" -> CheckDt(i)
    [] Ev[i].ev = "num" -> CheckNum(i)
    [] Ev[i].ev = "quote" -> CheckQuote(i)
    [] Ev[i].ev = "sint" -> CheckSint(i)
    [] Ev[i].ev = "span" -> CheckSpan(i)
    [] Ev[i].ev = "err" -> CheckErr(i)
    [] Ev[i].ev = "api" -> CheckApi(i)
    [] Ev[i].ev = "depth" -> CheckDepth(i)
    [] Ev[i].ev = "hist" -> CheckHist(i)
    [] Ev[i].ev = "serde" -> CheckSerde(i)
    [] Ev[i].ev = "visit" -> CheckVisit(i)
    [] Ev[i].ev = "build" -> CheckBuild(i)
    [] Ev[i].ev = "macro" -> CheckMacro(i)
    [] Ev[i].ev = "edit" -> AllTrue({CheckEdit(i), CheckEncodeDrift(i), CheckArrayDrift(i)})
    [] Ev[i].ev = "flags" -> CheckFlags(i)
    [] Ev[i].ev = "digest" -> CheckDigest(i)
    [] Ev[i].ev = "cfgbuild" -> CheckCfgBuild(i)
    [] OTHER -> Report(i, "unknown-event", Ev[i].ev) /\ FALSE

Init == lvl = 0 /\ idx = 0
Next == \/ lvl = 0 /\ lvl' = 1 /\ idx' \in 0..(K - 1)
        \/ lvl = 1 /\ lvl' = 2 /\ idx' \in {i \in 1..N : i % K = idx}
Spec == Init /\ [][Next]_vars

\* the conformance condition; always TRUE as an invariant (mismatches are printed)
Conforms == lvl = 2 => (CheckEvent(idx) \/ TRUE)
=============================================================================
