------------------------------ MODULE Validate ------------------------------
(***************************************************************************)
(* Trace validation of independent calls (DESIGN.md 4.2, "fan-out"): the   *)
(* harness records one event per public call of the implementation (input, *)
(* result, projected state); TLC evaluates the specification on the input  *)
(* of every event and compares.  State graph: a root, K chunk states, one  *)
(* leaf per event; the conformance condition is evaluated on leaf states.  *)
(* A non-conforming event prints one MISMATCH line (and the run goes on,   *)
(* so that every event is judged); the driver requires that the number of  *)
(* distinct states equals 1 + K + N, i.e. that every event was evaluated.  *)
(***************************************************************************)
EXTENDS TomlPrint, Json, IOUtils

Ev == ndJsonDeserialize(IOEnv.TRACE)
N == Len(Ev)
K == 64

VARIABLES lvl, idx
vars == <<lvl, idx>>

\* ------------------------------------------------------------------------
\* comparison of a specification value `s` with a projected implementation
\* value `m` (tag first, then fields of that tag only: TLC equality is
\* type-strict)
\* ------------------------------------------------------------------------
Abs(x) == IF x < 0 THEN 0 - x ELSE x

SameF(s, m) ==
  /\ m.neg = s.neg
  /\ CASE s.c \in {"nan", "inf", "zero"} -> m.c = s.c
       [] s.c = "fin" /\ Len(s.d) <= 15 /\ s.e >= 0 - 307 /\ s.e <= 307 ->
            m.c = "fin" /\ m.d = s.d /\ m.e = s.e
       [] s.c = "fin" /\ s.e < 0 - 307 ->
            \/ m.c = "zero" /\ s.e <= 0 - 324
            \/ m.c = "fin" /\ Abs(m.e - s.e) <= 1
       [] OTHER -> m.c = "fin" /\ Abs(m.e - s.e) <= 1

KeysOf(es) == [i \in 1..Len(es) |-> es[i].key]

RECURSIVE SameV(_, _, _)
SameV(s, m, ordered) ==
  /\ s.k = m.k
  /\ CASE s.k = "s" -> m.v = s.v \/ m.v = s.alt
       [] s.k = "i" -> m.neg = s.neg /\ m.d = s.d
       [] s.k = "b" -> m.v = s.v
       [] s.k = "f" -> SameF(s, m)
       [] s.k = "dt" -> m.date = s.date /\ m.time = s.time /\ m.off.t = s.off.t /\ m.off.m = s.off.m
       [] s.k = "a" -> Len(s.v) = Len(m.v) /\ \A i \in 1..Len(s.v) : SameV(s.v[i], m.v[i], ordered)
       [] s.k = "t" ->
            /\ Len(s.v) = Len(m.v)
            /\ \A i \in 1..Len(s.v) : \E j \in 1..Len(m.v) :
                  m.v[j].key = s.v[i].key /\ SameV(s.v[i].val, m.v[j].val, ordered)
            \* source order of keys; the position of a promoted super-table is free (DESIGN.md 3.5)
            /\ ordered =>
                 LET fixed == {s.v[i].key : i \in {x \in 1..Len(s.v) : ~s.v[x].prom}} IN
                 SelectSeq(KeysOf(s.v), LAMBDA k : k \in fixed) = SelectSeq(KeysOf(m.v), LAMBDA k : k \in fixed)

\* ------------------------------------------------------------------------
\* events
\* ------------------------------------------------------------------------
Report(i, what, detail) ==
  PrintT(ToJson([mismatch |-> i, id |-> Ev[i].id, what |-> what, detail |-> detail]))

\* parse: text, r = <<[fe, res, ordered, tree]...>>
CheckParse(i) ==
  LET e == Ev[i]
      p == ParseDocument(e.text)
  IN \A g \in 1..Len(e.r) :
       LET r == e.r[g] IN
       CASE r.res = "panic" -> Report(i, "panic", r.fe) /\ FALSE
         [] p.res = "u1" -> TRUE        \* outside the claim (class U1), counted by the driver
         [] p.res = "ok" /\ r.res = "ok" ->
              IF SameV(p.tree, r.tree, r.ordered) THEN TRUE
              ELSE Report(i, "tree", [fe |-> r.fe, expected |-> p.tree]) /\ FALSE
         [] p.res = "rej" /\ r.res = "err" -> TRUE
         [] OTHER -> Report(i, "verdict", [fe |-> r.fe, spec |-> p.res, impl |-> r.res, why |-> p.why, at |-> p.at]) /\ FALSE

\* parse_bytes: a byte string that is not valid UTF-8 must be rejected
CheckParseBytes(i) ==
  LET e == Ev[i]
      d == Utf8Decode(e.bytes)
  IN \A g \in 1..Len(e.r) :
       LET r == e.r[g] IN
       IF d.ok THEN TRUE   \* valid UTF-8 is recorded as a `parse` event by the harness
       ELSE IF r.res = "err" THEN TRUE
       ELSE Report(i, "verdict", [fe |-> r.fe, spec |-> "rej", impl |-> r.res, why |-> "utf8", at |-> 0]) /\ FALSE

\* label: self-check of the specification against the labels of toml-test
CheckLabel(i) ==
  LET e == Ev[i]
      p == ParseDocument(e.text)
  IN IF (e.lab = "valid" /\ p.res = "ok") \/ (e.lab = "invalid" /\ p.res = "rej") THEN TRUE
     ELSE Report(i, "label", [lab |-> e.lab, spec |-> p.res, why |-> p.why, at |-> p.at]) /\ FALSE

\* roundtrip (C03): text, r = <<[fe, res, out, out2]...>>; out = print(parse(text)), out2 = print(parse(out))
CheckRoundtrip(i) ==
  LET e == Ev[i]
      p == ParseDocument(e.text)
  IN IF p.res # "ok" THEN TRUE
     ELSE \A g \in 1..Len(e.r) :
       LET r == e.r[g] IN
       IF r.res = "err" THEN TRUE      \* a valid text that is refused is a C01 matter
       ELSE IF r.res # "ok" THEN Report(i, "rt-panic", r.fe) /\ FALSE
       ELSE LET q == ParseDocument(r.out)
                n == Norm(e.text, p)
            IN /\ IF q.res = "ok" THEN TRUE ELSE Report(i, "rt-invalid", [fe |-> r.fe, why |-> q.why, at |-> q.at]) /\ FALSE
               /\ q.res = "ok" =>
                    /\ IF Plain(q.tree) = Plain(p.tree) THEN TRUE ELSE Report(i, "rt-data", [fe |-> r.fe]) /\ FALSE
                    /\ IF AllKept(Comments(e.text, p), Comments(r.out, q)) THEN TRUE ELSE Report(i, "rt-comment", [fe |-> r.fe]) /\ FALSE
                    /\ IF r.out2 = r.out THEN TRUE ELSE Report(i, "rt-fixpoint", [fe |-> r.fe]) /\ FALSE
                    /\ IF Interleaved(p.stmts) \/ r.out = n THEN TRUE
                       ELSE IF HasRepeatedSegment(p.stmts) /\ SameUpToKeySpelling(n, ParseDocument(n), r.out, q)
                            THEN Report(i, "rt-respelled", [fe |-> r.fe, expected |-> n]) /\ FALSE
                            ELSE Report(i, "rt-exact", [fe |-> r.fe, expected |-> n]) /\ FALSE

U1Note(i) == Ev[i].ev = "parse" /\ ParseDocument(Ev[i].text).res = "u1" => PrintT(ToJson([u1 |-> i]))

CheckEvent(i) ==
  CASE Ev[i].ev = "parse" -> CheckParse(i) /\ U1Note(i)
    [] Ev[i].ev = "parse_bytes" -> CheckParseBytes(i)
    [] Ev[i].ev = "label" -> CheckLabel(i)
    [] Ev[i].ev = "roundtrip" -> CheckRoundtrip(i)
    [] OTHER -> Report(i, "unknown-event", Ev[i].ev) /\ FALSE

Init == lvl = 0 /\ idx = 0
Next == \/ lvl = 0 /\ lvl' = 1 /\ idx' \in 0..(K - 1)
        \/ lvl = 1 /\ lvl' = 2 /\ idx' \in {i \in 1..N : i % K = idx}
Spec == Init /\ [][Next]_vars

\* the conformance condition; always TRUE as an invariant (mismatches are printed)
Conforms == lvl = 2 => (CheckEvent(idx) \/ TRUE)
=============================================================================
