------------------------------ MODULE MCSerImpl ------------------------------
EXTENDS SerImpl, TLC
CONSTANT MaxLen
ASSUME \A n \in 0..MaxLen : \A es \in [1..n -> Kinds] : EmitOK(es)
VARIABLE x
Init == x = 0
Next == x' = x
Spec == Init /\ [][Next]_x
=============================================================================
