------------------------------- MODULE Chars -------------------------------
(***************************************************************************)
(* Terminal classes of toml.abnf (TOML 1.0.0) over Unicode scalar values,  *)
(* UTF-8 lengths and byte-level well-formedness.  A text is a sequence of  *)
(* Unicode scalar values (integers); a byte string is a sequence of        *)
(* integers 0..255.                                                        *)
(***************************************************************************)
EXTENDS Naturals, Integers, Sequences

\* Safe indexing: -1 outside the text (never a member of any class).
At(t, i) == IF i >= 1 /\ i <= Len(t) THEN t[i] ELSE 0 - 1

IsWs(c) == c = 32 \/ c = 9
IsDigit(c) == c >= 48 /\ c <= 57
IsDigit19(c) == c >= 49 /\ c <= 57
IsAlpha(c) == (c >= 65 /\ c <= 90) \/ (c >= 97 /\ c <= 122)
IsHex(c) == IsDigit(c) \/ (c >= 65 /\ c <= 70) \/ (c >= 97 /\ c <= 102)
IsOct(c) == c >= 48 /\ c <= 55
IsBin(c) == c = 48 \/ c = 49
IsBare(c) == IsAlpha(c) \/ IsDigit(c) \/ c = 45 \/ c = 95
IsScalar(n) == (n >= 0 /\ n <= 55295) \/ (n >= 57344 /\ n <= 1114111)
\* non-ascii = %x80-D7FF / %xE000-10FFFF
NonAscii(c) == (c >= 128 /\ c <= 55295) \/ (c >= 57344 /\ c <= 1114111)
\* non-eol: the 1.0.0 ABNF admits %x7F, the prose ("control characters other
\* than tab are not permitted in comments") and toml-test forbid it: prose wins.
NonEol(c) == c = 9 \/ (c >= 32 /\ c <= 126) \/ NonAscii(c)
BasicUnescaped(c) == IsWs(c) \/ c = 33 \/ (c >= 35 /\ c <= 91) \/ (c >= 93 /\ c <= 126) \/ NonAscii(c)
LiteralChar(c) == c = 9 \/ (c >= 32 /\ c <= 38) \/ (c >= 40 /\ c <= 126) \/ NonAscii(c)
HexVal(c) == IF IsDigit(c) THEN c - 48 ELSE IF c >= 97 THEN c - 87 ELSE c - 55

\* ---- UTF-8 ----
Utf8Len(c) == IF c < 128 THEN 1 ELSE IF c < 2048 THEN 2 ELSE IF c < 65536 THEN 3 ELSE 4

\* byte offset (0-based) of code point index i (1-based); i may be Len(t)+1
RECURSIVE ByteOffAcc(_, _, _, _)
ByteOffAcc(t, i, j, acc) == IF j >= i \/ j > Len(t) THEN acc ELSE ByteOffAcc(t, i, j + 1, acc + Utf8Len(t[j]))
ByteOff(t, i) == ByteOffAcc(t, i, 1, 0)

\* prefix table: Offs(t)[i] = byte offset of code point i, for i in 1..Len(t)+1
RECURSIVE OffsAcc(_, _, _, _)
OffsAcc(t, j, acc, out) == IF j > Len(t) THEN Append(out, acc)
                           ELSE OffsAcc(t, j + 1, acc + Utf8Len(t[j]), Append(out, acc))
Offs(t) == OffsAcc(t, 1, 0, <<>>)

IsCont(b) == b >= 128 /\ b <= 191

\* Decode a byte string; result [ok, v] with v the scalar values.  Follows the
\* Unicode "well-formed UTF-8 byte sequences" table (no overlongs, no
\* surrogates, nothing above U+10FFFF).
RECURSIVE Utf8DecodeAcc(_, _, _)
Utf8DecodeAcc(b, i, acc) ==
  IF i > Len(b) THEN [ok |-> TRUE, v |-> acc]
  ELSE LET b0 == b[i] b1 == At(b, i + 1) b2 == At(b, i + 2) b3 == At(b, i + 3) IN
    IF b0 < 128 THEN Utf8DecodeAcc(b, i + 1, Append(acc, b0))
    ELSE IF b0 >= 194 /\ b0 <= 223 THEN
      IF IsCont(b1) THEN Utf8DecodeAcc(b, i + 2, Append(acc, (b0 - 192) * 64 + (b1 - 128)))
      ELSE [ok |-> FALSE, v |-> acc]
    ELSE IF b0 >= 224 /\ b0 <= 239 THEN
      IF /\ IsCont(b1) /\ IsCont(b2)
         /\ (b0 = 224 => b1 >= 160)
         /\ (b0 = 237 => b1 <= 159)
      THEN Utf8DecodeAcc(b, i + 3, Append(acc, (b0 - 224) * 4096 + (b1 - 128) * 64 + (b2 - 128)))
      ELSE [ok |-> FALSE, v |-> acc]
    ELSE IF b0 >= 240 /\ b0 <= 244 THEN
      IF /\ IsCont(b1) /\ IsCont(b2) /\ IsCont(b3)
         /\ (b0 = 240 => b1 >= 144)
         /\ (b0 = 244 => b1 <= 143)
      THEN Utf8DecodeAcc(b, i + 4, Append(acc, (b0 - 240) * 262144 + (b1 - 128) * 4096 + (b2 - 128) * 64 + (b3 - 128)))
      ELSE [ok |-> FALSE, v |-> acc]
    ELSE [ok |-> FALSE, v |-> acc]
Utf8Decode(b) == Utf8DecodeAcc(b, 1, <<>>)

\* Class representatives and the boundary code points of every ABNF range.
Boundaries == {0, 8, 9, 10, 11, 12, 13, 31, 32, 33, 34, 35, 38, 39, 40, 43, 44, 45, 46, 47, 48, 49, 55, 56, 57, 58,
               61, 64, 65, 70, 71, 90, 91, 92, 93, 95, 96, 97, 102, 103, 122, 123, 125, 126, 127, 128, 255,
               2047, 2048, 55295, 57344, 65279, 65535, 65536, 1114111}

\* Sanity theorems checked by TLC (MCChars): the classes nest as the ABNF says.
ClassesOk ==
  /\ \A c \in Boundaries :
       /\ (BasicUnescaped(c) => NonEol(c))
       /\ (LiteralChar(c) => NonEol(c))
       /\ (NonEol(c) => IsScalar(c))
       /\ (IsBare(c) => (BasicUnescaped(c) /\ LiteralChar(c)))
  /\ ~NonEol(127) /\ ~BasicUnescaped(127) /\ ~LiteralChar(127)
  /\ ~BasicUnescaped(34) /\ ~BasicUnescaped(92) /\ ~LiteralChar(39)
  /\ LiteralChar(92) /\ LiteralChar(34) /\ BasicUnescaped(39)
  /\ ~NonEol(10) /\ ~NonEol(13) /\ ~NonEol(0) /\ ~NonEol(31) /\ NonEol(9)
  /\ NonAscii(128) /\ NonAscii(55295) /\ ~NonAscii(55296) /\ ~NonAscii(57343) /\ NonAscii(57344)
  /\ NonAscii(1114111) /\ ~NonAscii(1114112)
=============================================================================
