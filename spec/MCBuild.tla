------------------------------- MODULE MCBuild -------------------------------
(***************************************************************************)
(* Abstract trees for C06: every finite tree over the TOML value types up  *)
(* to a small depth, with one leaf / key at a time ranging over            *)
(* adversarial classes.  A shape is                                        *)
(*   [k |-> "L", v |-> scalar]            a leaf                           *)
(*   [k |-> "A", v |-> <<value shapes>>]  an array                         *)
(*   [k |-> "I", v |-> <<[key, val]>>]    an inline table                  *)
(*   [k |-> "T", v |-> <<[key, val]>>]    a standard table                 *)
(*   [k |-> "AT", v |-> <<table shapes>>] an array of tables               *)
(* BuildDef.ExpectedTree gives the tree the printed text must decode to.   *)
(***************************************************************************)
EXTENDS BuildDef, TLC, Json

CONSTANTS FULL   \* TRUE: all leaves and keys on all shapes; FALSE: one-at-a-time variation

K1 == <<97>>
K2 == <<98>>
K3 == <<99>>
L0 == [k |-> "L", v |-> [k |-> "i", neg |-> FALSE, d |-> <<1>>]]
A(vs) == [k |-> "A", v |-> vs]
I(es) == [k |-> "I", v |-> es]
T(es) == [k |-> "T", v |-> es]
AT(ts) == [k |-> "AT", v |-> ts]
E(key, val) == [key |-> key, val |-> val]

V0 == {L0}
V1 == V0 \cup {A(<<>>), I(<<>>)} \cup {A(<<a>>) : a \in V0} \cup {A(<<a, b>>) : a, b \in V0}
         \cup {I(<<E(K1, a)>>) : a \in V0} \cup {I(<<E(K2, a), E(K1, b)>>) : a, b \in V0}
V2 == V1 \cup {A(<<a>>) : a \in V1} \cup {A(<<a, b>>) : a \in V1, b \in {L0, I(<<E(K1, L0)>>), A(<<L0>>)}}
         \cup {I(<<E(K1, a)>>) : a \in V1} \cup {I(<<E(K2, a), E(K1, b)>>) : a \in V1, b \in {L0, A(<<>>)}}
It0 == V1 \cup {T(<<>>)}
Tb1 == {T(<<>>)} \cup {T(<<E(K1, x)>>) : x \in It0} \cup {T(<<E(K2, x), E(K1, y)>>) : x \in It0, y \in {L0, T(<<>>), A(<<L0>>)}}
It1 == V2 \cup Tb1 \cup {AT(<<t>>) : t \in Tb1} \cup {AT(<<t, u>>) : t \in {T(<<>>), T(<<E(K1, L0)>>), T(<<E(K1, T(<<E(K2, L0)>>))>>)}, u \in {T(<<>>), T(<<E(K2, L0)>>)}}
             \cup {AT(<<T(<<E(K1, AT(<<T(<<E(K2, L0)>>), T(<<>>)>>)), E(K2, L0)>>), T(<<E(K1, AT(<<T(<<>>)>>))>>)>>)}
             \cup {T(<<E(K1, T(<<E(K2, T(<<>>))>>))>>), T(<<E(K1, T(<<E(K2, T(<<E(K3, L0)>>))>>)), E(K3, L0)>>)}
Roots == {T(<<>>)} \cup {T(<<E(K1, x)>>) : x \in It1}
         \cup {T(<<E(K2, x), E(K1, y)>>) : x \in It1, y \in {L0, T(<<E(K3, L0)>>), AT(<<T(<<>>)>>)}}
         \cup {T(<<E(K1, y), E(K2, x), E(K3, L0)>>) : x \in It0, y \in {T(<<>>), I(<<>>)}}

\* adversarial leaves and keys
Sv(s) == [k |-> "s", v |-> s]
Iv(neg, d) == [k |-> "i", neg |-> neg, d |-> d]
Fv(c, neg, d, e) == [k |-> "f", c |-> c, neg |-> neg, d |-> d, e |-> e]
Dv(date, time, off) == [k |-> "dt", date |-> date, time |-> time, off |-> off]
Chs == {34, 39, 92, 10, 13, 9, 32, 0, 8, 31, 127, 35, 97, 233, 128512, 65279}
Leaves ==
  {Sv(<<>>)} \cup {Sv(<<c>>) : c \in Chs} \cup {Sv(<<97, c, 98>>) : c \in {34, 39, 92, 10, 13}}
  \cup {Sv(<<a, b>>) : a, b \in Chs}      \* every pair of the byte classes the writers distinguish
  \cup {Sv(<<c>>) : c \in 0..127} \cup {Sv(<<97, c, 34>>) : c \in 0..31}   \* and every ASCII byte on its own (the writers match per byte)
  \cup {Sv(<<39, 39, 39>>), Sv(<<34, 34, 34>>), Sv(<<10, 97>>), Sv(<<97, 10, 10, 39, 39>>), Sv(<<116, 114, 117, 101>>), Sv(<<49>>), Sv(<<13, 10>>), Sv(<<92, 117, 48, 48>>)}
  \cup {Iv(FALSE, <<0>>), Iv(TRUE, <<1>>), Iv(FALSE, <<9,2,2,3,3,7,2,0,3,6,8,5,4,7,7,5,8,0,7>>), Iv(TRUE, <<9,2,2,3,3,7,2,0,3,6,8,5,4,7,7,5,8,0,8>>)}
  \cup {Fv("zero", n, <<>>, 0) : n \in BOOLEAN} \cup {Fv("inf", n, <<>>, 0) : n \in BOOLEAN} \cup {Fv("nan", n, <<>>, 0) : n \in BOOLEAN}
  \cup {Fv("fin", FALSE, <<1, 5>>, 0), Fv("fin", TRUE, <<1>>, 22), Fv("fin", FALSE, <<5>>, 0 - 324), Fv("fin", FALSE, <<1,7,9,7,6,9,3,1,3,4,8,6,2,3,1,5,7>>, 308), Fv("fin", FALSE, <<1>>, 15), Fv("fin", FALSE, <<1>>, 16), Fv("fin", TRUE, <<1, 2, 3>>, 0 - 7)}
  \cup {[k |-> "b", v |-> b] : b \in BOOLEAN}
  \cup {Dv(<<1979, 5, 27>>, <<7, 32, 0, 0>>, [t |-> "Z", m |-> 0]), Dv(<<1979, 5, 27>>, <<0, 32, 0, 999999000>>, [t |-> "O", m |-> 0 - 420]),
        Dv(<<1979, 5, 27>>, <<7, 32, 0, 0>>, [t |-> "N", m |-> 0]), Dv(<<1979, 5, 27>>, <<>>, [t |-> "N", m |-> 0]), Dv(<<>>, <<7, 32, 0, 500000000>>, [t |-> "N", m |-> 0]),
        \* all nine fraction digits significant, the smallest and the largest fraction
        Dv(<<>>, <<23, 59, 59, 999999999>>, [t |-> "N", m |-> 0]), Dv(<<1979, 5, 27>>, <<7, 32, 0, 1>>, [t |-> "Z", m |-> 0]),
        Dv(<<1979, 5, 27>>, <<7, 32, 0, 123456789>>, [t |-> "O", m |-> 330]), Dv(<<1979, 5, 27>>, <<7, 32, 0, 120000000>>, [t |-> "N", m |-> 0]),
        \* a leap second, a numeric offset of zero, the extreme offsets
        Dv(<<2016, 12, 31>>, <<23, 59, 60, 0>>, [t |-> "Z", m |-> 0]), Dv(<<>>, <<23, 59, 60, 500000000>>, [t |-> "N", m |-> 0]),
        Dv(<<1987, 7, 5>>, <<17, 45, 56, 0>>, [t |-> "O", m |-> 0]), Dv(<<1987, 7, 5>>, <<17, 45, 56, 0>>, [t |-> "O", m |-> 1439]),
        Dv(<<1987, 7, 5>>, <<17, 45, 56, 0>>, [t |-> "O", m |-> 0 - 1439])}
KeyPool == {<<>>} \cup {<<c>> : c \in Chs} \cup {<<c>> : c \in (0..127) \ {98, 99}} \cup {<<a, b>> : a, b \in {34, 39, 92, 10, 127, 97, 233, 32, 35}} \cup {<<97, 46, 98>>, <<97, 32, 98>>, <<49>>, <<49, 46, 53>>, <<116, 114, 117, 101>>, <<49, 57, 55, 57, 45, 48, 53, 45, 50, 55>>,
                                                  <<45>>, <<95>>, <<34, 39>>, <<39, 39, 39>>, <<105, 110, 102>>}

RECURSIVE SubstLeaf(_, _), SubstSeq(_, _), SubstEntries(_, _)
SubstLeaf(s, lf) == CASE s.k = "L" -> [k |-> "L", v |-> lf]
                      [] s.k \in {"A", "AT"} -> [k |-> s.k, v |-> SubstSeq(s.v, lf)]
                      [] OTHER -> [k |-> s.k, v |-> SubstEntries(s.v, lf)]
SubstSeq(vs, lf) == IF vs = <<>> THEN <<>> ELSE <<SubstLeaf(Head(vs), lf)>> \o SubstSeq(Tail(vs), lf)
SubstEntries(es, lf) == IF es = <<>> THEN <<>> ELSE <<E(Head(es).key, SubstLeaf(Head(es).val, lf))>> \o SubstEntries(Tail(es), lf)
RECURSIVE SubstKey(_, _), SubstKeySeq(_, _), SubstKeyEntries(_, _)
SubstKey(s, key) == CASE s.k = "L" -> s
                      [] s.k \in {"A", "AT"} -> [k |-> s.k, v |-> SubstKeySeq(s.v, key)]
                      [] OTHER -> [k |-> s.k, v |-> SubstKeyEntries(s.v, key)]
SubstKeySeq(vs, key) == IF vs = <<>> THEN <<>> ELSE <<SubstKey(Head(vs), key)>> \o SubstKeySeq(Tail(vs), key)
SubstKeyEntries(es, key) == IF es = <<>> THEN <<>>
                            ELSE <<E(IF Head(es).key = K1 THEN key ELSE Head(es).key, SubstKey(Head(es).val, key))>> \o SubstKeyEntries(Tail(es), key)

\* a sample of shapes for the leaf / key variation in the one-at-a-time mode
Sample == {T(<<E(K1, L0)>>), T(<<E(K1, A(<<L0, L0>>))>>), T(<<E(K1, I(<<E(K1, L0)>>))>>), T(<<E(K1, T(<<E(K1, L0)>>))>>),
           T(<<E(K1, AT(<<T(<<E(K1, L0)>>), T(<<E(K2, L0)>>)>>))>>), T(<<E(K2, T(<<E(K1, A(<<I(<<E(K1, L0)>>)>>))>>)), E(K1, L0)>>),
           T(<<E(K1, A(<<A(<<L0>>), I(<<E(K1, A(<<L0>>))>>)>>))>>)}

VARIABLES lvl, shape
Init == lvl = 0 /\ shape = T(<<>>)
Next == /\ lvl = 0 /\ lvl' = 1
        /\ \/ shape' \in Roots
           \/ \E s \in (IF FULL THEN Roots ELSE Sample), lf \in Leaves : shape' = SubstLeaf(s, lf)
           \/ \E s \in (IF FULL THEN Roots ELSE Sample), key \in KeyPool : shape' = SubstKey(s, key)
Spec == Init /\ [][Next]_<<lvl, shape>>
Emit == lvl = 1 => PrintT(ToJson([shape |-> shape]))
\* the expected tree is well defined for every shape: no duplicate keys in any table
WellFormed == lvl = 1 => NoDupKeys(shape)
=============================================================================
