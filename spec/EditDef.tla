------------------------------ MODULE EditDef ------------------------------
(***************************************************************************)
(* Structural edits (C08) on the content of a document.                    *)
(*                                                                         *)
(* Content = the plain ordered tree of TomlDef.Plain.  A position is a     *)
(* path of steps: a key (code points) or an index <<0 - 1, i>> (0-based).  *)
(* An operation is a record [op, path, key, v, i]:                          *)
(*   insert       put value v under `key` in the table at `path`           *)
(*                (existing key: replaced in place; new key: appended)     *)
(*   remove       remove `key` from the table at `path`                    *)
(*   array_push / array_insert(i) / array_replace(i) / array_remove(i)      *)
(*                on the array stored under `key` in the table at `path`   *)
(*   aot_push / aot_remove(i)  on the array of tables under `key`          *)
(*   sort_values  sort the key/value pairs of the table at `path` by key    *)
(*   fmt          re-format the table at `path` (content unchanged)        *)
(*   array_fmt    re-format the array under `key` (content unchanged)      *)
(*   clear        remove every entry of the table at `path`                *)
(*   to_inline / to_table   convert the table under `key` between the      *)
(*                standard and the inline form (content unchanged)         *)
(* ApplyOp gives the content after the operation; Touched gives the paths  *)
(* whose source text the operation is allowed to change.                   *)
(***************************************************************************)
EXTENDS TomlDef

IdxStep(i) == <<0 - 1, i>>
IsIdx(st) == Len(st) = 2 /\ st[1] = 0 - 1
Leaf(n) == [k |-> "i", neg |-> FALSE, d |-> <<n>>]
NewTable(n) == [k |-> "t", v |-> <<[key |-> <<105, 100>>, val |-> Leaf(n)]>>]   \* { id = n }

KeyPos(es, key) == IF \E j \in 1..Len(es) : es[j].key = key THEN CHOOSE j \in 1..Len(es) : es[j].key = key ELSE 0
RemoveIdx(s, j) == SubSeq(s, 1, j - 1) \o SubSeq(s, j + 1, Len(s))
InsertIdx(s, j, x) == SubSeq(s, 1, j - 1) \o <<x>> \o SubSeq(s, j, Len(s))

\* node at a path (or a marker when the path does not exist)
Missing == [k |-> "missing"]
RECURSIVE GetAt(_, _)
GetAt(t, path) ==
  IF path = <<>> THEN t
  ELSE LET st == Head(path) IN
       IF IsIdx(st) THEN (IF t.k = "a" /\ st[2] + 1 <= Len(t.v) THEN GetAt(t.v[st[2] + 1], Tail(path)) ELSE Missing)
       ELSE IF t.k = "t" /\ KeyPos(t.v, st) # 0 THEN GetAt(t.v[KeyPos(t.v, st)].val, Tail(path)) ELSE Missing

\* replace the node at a path by f(node)
RECURSIVE SetAt(_, _, _)
SetAt(t, path, new) ==
  IF path = <<>> THEN new
  ELSE LET st == Head(path) IN
       IF IsIdx(st) THEN [t EXCEPT !.v[st[2] + 1] = SetAt(t.v[st[2] + 1], Tail(path), new)]
       ELSE LET j == KeyPos(t.v, st) IN [t EXCEPT !.v[j].val = SetAt(t.v[j].val, Tail(path), new)]

\* insertion sort of entries by key (code point order = UTF-8 byte order)
RECURSIVE KeyLess(_, _)
KeyLess(a, b) == IF a = <<>> THEN b # <<>> ELSE IF b = <<>> THEN FALSE
                 ELSE IF a[1] < b[1] THEN TRUE ELSE IF a[1] > b[1] THEN FALSE ELSE KeyLess(Tail(a), Tail(b))
RECURSIVE InsSorted(_, _), SortEntries(_)
InsSorted(es, e) == IF es = <<>> THEN <<e>> ELSE IF KeyLess(e.key, Head(es).key) THEN <<e>> \o es ELSE <<Head(es)>> \o InsSorted(Tail(es), e)
SortEntries(es) == IF es = <<>> THEN <<>> ELSE InsSorted(SortEntries(Tail(es)), Head(es))

Enabled(t, o) ==
  LET tb == GetAt(t, o.path)
      tgt == GetAt(t, Append(o.path, o.key)) IN
  CASE o.op = "insert" -> tb.k = "t"
    [] o.op = "remove" -> tb.k = "t" /\ KeyPos(tb.v, o.key) # 0
    [] o.op \in {"array_push", "aot_push"} -> tgt.k = "a"
    [] o.op = "array_insert" -> tgt.k = "a" /\ o.i <= Len(tgt.v)
    [] o.op \in {"array_replace", "array_remove", "aot_remove"} -> tgt.k = "a" /\ o.i + 1 <= Len(tgt.v)
    [] o.op \in {"sort_values", "fmt", "clear"} -> tb.k = "t"
    [] o.op = "array_fmt" -> tgt.k = "a"
    [] o.op \in {"to_inline", "to_table"} -> tgt.k = "t"
    [] OTHER -> FALSE

ApplyOp(t, o) ==
  LET tb == GetAt(t, o.path)
      tp == Append(o.path, o.key)
      tgt == GetAt(t, tp) IN
  CASE o.op = "insert" ->
         LET j == KeyPos(tb.v, o.key) IN
         SetAt(t, o.path, IF j = 0 THEN [tb EXCEPT !.v = Append(tb.v, [key |-> o.key, val |-> o.v])]
                          ELSE [tb EXCEPT !.v[j].val = o.v])
    [] o.op = "remove" -> SetAt(t, o.path, [tb EXCEPT !.v = RemoveIdx(tb.v, KeyPos(tb.v, o.key))])
    [] o.op = "array_push" -> SetAt(t, tp, [tgt EXCEPT !.v = Append(tgt.v, o.v)])
    [] o.op = "array_insert" -> SetAt(t, tp, [tgt EXCEPT !.v = InsertIdx(tgt.v, o.i + 1, o.v)])
    [] o.op = "array_replace" -> SetAt(t, tp, [tgt EXCEPT !.v[o.i + 1] = o.v])
    [] o.op = "array_remove" -> SetAt(t, tp, [tgt EXCEPT !.v = RemoveIdx(tgt.v, o.i + 1)])
    [] o.op = "aot_push" -> SetAt(t, tp, [tgt EXCEPT !.v = Append(tgt.v, o.v)])
    \* an array of tables that loses its last element disappears: TOML cannot spell an empty one
    [] o.op = "aot_remove" -> IF Len(tgt.v) = 1 THEN SetAt(t, o.path, [tb EXCEPT !.v = RemoveIdx(tb.v, KeyPos(tb.v, o.key))])
                              ELSE SetAt(t, tp, [tgt EXCEPT !.v = RemoveIdx(tgt.v, o.i + 1)])
    [] o.op = "sort_values" -> SetAt(t, o.path, [tb EXCEPT !.v = SortEntries(tb.v)])
    [] o.op \in {"fmt", "array_fmt", "to_inline", "to_table"} -> t
    [] o.op = "clear" -> SetAt(t, o.path, [tb EXCEPT !.v = <<>>])

\* the path whose source text may change; everything outside it must stay verbatim
TouchedPath(o) ==
  CASE o.op \in {"insert", "remove", "array_push", "array_insert", "array_replace", "array_remove", "array_fmt", "to_inline", "to_table"} -> Append(o.path, o.key)
    [] o.op \in {"fmt", "clear"} -> o.path                                  \* the whole container
    [] o.op = "aot_push" -> Append(Append(o.path, o.key), IdxStep(0 - 2))     \* nothing that exists
    [] o.op = "aot_remove" -> Append(Append(o.path, o.key), IdxStep(o.i))
    [] o.op = "sort_values" -> <<<<0 - 9>>>>                                \* nothing: fragments survive, order within the table is free
IsPrefixPath(p, q) == Len(p) <= Len(q) /\ SubSeq(q, 1, Len(p)) = p

\* expected and actual content agree; a key that the operation created may sit anywhere among its siblings
\* only if the table also holds sub-tables (values precede sub-tables in TOML text)
RECURSIVE SameContent(_, _)
SameContent(a, b) ==
  /\ a.k = b.k
  /\ CASE a.k = "t" -> /\ Len(a.v) = Len(b.v)
                       /\ \A x \in 1..Len(a.v) : \E y \in 1..Len(b.v) : b.v[y].key = a.v[x].key /\ SameContent(a.v[x].val, b.v[y].val)
       [] a.k = "a" -> Len(a.v) = Len(b.v) /\ \A x \in 1..Len(a.v) : SameContent(a.v[x], b.v[x])
       [] OTHER -> a = b
\* content without empty tables (bottom-up)
RECURSIVE DropEmptyTables(_), DropEmptySeq(_), DropEmptyEntries(_)
DropEmptyTables(t) ==
  CASE t.k = "t" -> [t EXCEPT !.v = DropEmptyEntries(t.v)]
    [] t.k = "a" -> [t EXCEPT !.v = DropEmptySeq(t.v)]
    [] OTHER -> t
DropEmptySeq(vs) == IF vs = <<>> THEN <<>> ELSE <<DropEmptyTables(Head(vs))>> \o DropEmptySeq(Tail(vs))
DropEmptyEntries(es) ==
  IF es = <<>> THEN <<>>
  ELSE LET v == DropEmptyTables(Head(es).val) IN
       (IF v.k = "t" /\ v.v = <<>> THEN <<>> ELSE <<[key |-> Head(es).key, val |-> v]>>) \o DropEmptyEntries(Tail(es))

\* survivors keep their relative order: the keys common to `before` and `after` appear in the same order, at every table
RECURSIVE SurvivorsOrdered(_, _)
SurvivorsOrdered(before, after) ==
  IF before.k # after.k THEN TRUE
  ELSE CASE before.k = "t" ->
              LET common == {before.v[x].key : x \in 1..Len(before.v)} \cap {after.v[x].key : x \in 1..Len(after.v)}
                  kb == SelectSeq([x \in 1..Len(before.v) |-> before.v[x].key], LAMBDA k : k \in common)
                  ka == SelectSeq([x \in 1..Len(after.v) |-> after.v[x].key], LAMBDA k : k \in common)
              IN /\ kb = ka
                 /\ \A x \in 1..Len(before.v) : before.v[x].key \in common =>
                      SurvivorsOrdered(before.v[x].val, after.v[KeyPos(after.v, before.v[x].key)].val)
         [] OTHER -> TRUE
=============================================================================
