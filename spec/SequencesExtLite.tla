-------------------------- MODULE SequencesExtLite --------------------------
(* The two sequence helpers the specification needs, without importing the  *)
(* community SequencesExt (whose Front/Last names are avoided on purpose).  *)
EXTENDS Naturals, Sequences
IsPrefixOf(s, t) == Len(s) <= Len(t) /\ SubSeq(t, 1, Len(s)) = s
=============================================================================
