SPECIFICATION Spec
CONSTANTS
  Stmts <- MCStmts
  MaxN = 3
  MaxPath = 2
  EMIT = TRUE
  RICH = 1
  UNIFORM = FALSE
  NARROW = 0
  INLINE = FALSE
INVARIANT WellFormed
INVARIANT GenLexAgree
INVARIANT Emit
PROPERTY NoOverwriteProp
PROPERTY RejectIsAtomic
CHECK_DEADLOCK FALSE
