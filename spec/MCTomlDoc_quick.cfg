SPECIFICATION Spec
CONSTANTS
  Stmts <- MCStmts
  MaxN = 3
  MaxPath = 2
  EMIT = TRUE
  RICH = FALSE
  UNIFORM = FALSE
INVARIANT WellFormed
INVARIANT GenLexAgree
INVARIANT Emit
PROPERTY NoOverwriteProp
PROPERTY RejectIsAtomic
CHECK_DEADLOCK FALSE
