------------------------------ MODULE BuildDef ------------------------------
(* The tree a document built through the construction API must decode to     *)
(* (C06): containers map to tables / arrays; in a standard table the values   *)
(* precede the sub-tables and arrays of tables in the printed text (TOML      *)
(* cannot express any other order), each group in insertion order.            *)
EXTENDS TomlDef

IsTableShape(s) == s.k \in {"T", "AT"}
RECURSIVE ExpectedTree(_), ExpSeqB(_), ExpEntriesB(_)
ExpectedTree(s) ==
  CASE s.k = "L" -> s.v
    [] s.k \in {"A", "AT"} -> [k |-> "a", v |-> ExpSeqB(s.v)]
    [] s.k = "I" -> [k |-> "t", v |-> ExpEntriesB(s.v)]
    [] s.k = "T" -> [k |-> "t", v |-> ExpEntriesB(SelectSeq(s.v, LAMBDA e : ~IsTableShape(e.val)) \o SelectSeq(s.v, LAMBDA e : IsTableShape(e.val)))]
ExpSeqB(vs) == IF vs = <<>> THEN <<>> ELSE <<ExpectedTree(Head(vs))>> \o ExpSeqB(Tail(vs))
ExpEntriesB(es) == IF es = <<>> THEN <<>> ELSE <<[key |-> Head(es).key, val |-> ExpectedTree(Head(es).val)]>> \o ExpEntriesB(Tail(es))

RECURSIVE NoDupKeys(_)
NoDupKeys(s) ==
  CASE s.k = "L" -> TRUE
    [] s.k \in {"A", "AT"} -> \A i \in 1..Len(s.v) : NoDupKeys(s.v[i])
    [] OTHER -> /\ \A i, j \in 1..Len(s.v) : i # j => s.v[i].key # s.v[j].key
                /\ \A i \in 1..Len(s.v) : NoDupKeys(s.v[i].val)
=============================================================================
