------------------------------- MODULE SerImpl -------------------------------
(***************************************************************************)
(* Implementation-shaped model of `impl Serialize for toml::Value`, table  *)
(* arm (crates/toml/src/value.rs): the entries of a table are handed to    *)
(* the serializer in three passes - values and arrays without tables,      *)
(* arrays that hold a table, tables - because in TOML text every pair of a *)
(* table must be written before its first sub-table header.                *)
(*                                                                         *)
(* An entry is abstracted to the kind of its value:                        *)
(*   "s" scalar, "a0" empty array, "av" array of non-tables,               *)
(*   "at" array of tables only, "am" array mixing tables and non-tables,   *)
(*   "t" table.                                                            *)
(* MCSerImpl checks on every sequence of kinds that the three passes form  *)
(* a partition (every entry emitted exactly once), keep the map order      *)
(* inside each pass, and emit no table or array holding tables before a    *)
(* plain value.  (C07 / C17 bind it: the serialized text of every          *)
(* generated toml::Value tree is compared with SerdeModel.Enc.)            *)
(***************************************************************************)
EXTENDS Naturals, Sequences, FiniteSets

Kinds == {"s", "a0", "av", "at", "am", "t"}
IsTable(k) == k = "t"
IsArray(k) == k \in {"a0", "av", "at", "am"}
AnyTableElem(k) == k \in {"at", "am"}          \* a.iter().any(|v| v.is_table())

\* the guards of the three loops, as written
Pass1(k) == (~IsTable(k) /\ ~IsArray(k)) \/ (IsArray(k) /\ ~AnyTableElem(k))
Pass2(k) == IsArray(k) /\ AnyTableElem(k)
Pass3(k) == IsTable(k)

Idx(es, P(_)) == SelectSeq([i \in 1..Len(es) |-> i], LAMBDA i : P(es[i]))
\* indices of the entries in the order they reach serialize_entry
EmitOrder(es) == Idx(es, Pass1) \o Idx(es, Pass2) \o Idx(es, Pass3)

IsPermutation(s, n) == Len(s) = n /\ {s[i] : i \in 1..Len(s)} = 1..n
\* values (and arrays printed as values) precede everything that needs a header
HeadersLast(es, ord) == \A i, j \in 1..Len(ord) : (i < j /\ (es[ord[i]] \in {"t", "at", "am"})) => es[ord[j]] \in {"t", "at", "am"}
OrderKeptInsidePasses(es, ord) ==
  \A i, j \in 1..Len(ord) : (i < j /\ ((Pass1(es[ord[i]]) /\ Pass1(es[ord[j]])) \/ (Pass2(es[ord[i]]) /\ Pass2(es[ord[j]])) \/ (Pass3(es[ord[i]]) /\ Pass3(es[ord[j]]))))
                             => ord[i] < ord[j]
EmitOK(es) == LET ord == EmitOrder(es) IN IsPermutation(ord, Len(es)) /\ HeadersLast(es, ord) /\ OrderKeptInsidePasses(es, ord)
=============================================================================
