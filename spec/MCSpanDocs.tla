----------------------------- MODULE MCSpanDocs -----------------------------
(* Documents aimed at spans (C14) and located type errors (C15): the key `k` *)
(* as scalar, array, inline table, dotted-key table, header table, implicit  *)
(* super-table, array of tables; multi-byte characters, BOM, CRLF and        *)
(* comments before and inside tokens.                                        *)
EXTENDS TomlLex, TomlGen, Json

K == <<107>>
NL == {<<10>>, <<13, 10>>}
Prefixes == {<<>>, <<65279>>, <<35, 32, 233, 128512, 10>>, <<13, 10, 9>>, <<34, 233, 34, 61, 39, 128512, 39, 10>>}
KeyForms == {<<107>>, <<34, 107, 34>>, <<39, 107, 39>>, <<34, 92, 117, 48, 48, 54, 66, 34>>}
Vals == {<<49>>, <<34, 233, 128512, 34>>, <<39, 39, 39, 10, 233, 39, 39, 39>>, <<49, 46, 53>>, <<116, 114, 117, 101>>,
         <<50, 48, 48, 48, 45, 48, 49, 45, 48, 49>>, <<91, 49, 44, 32, 34, 233, 34, 44, 32, 91, 50, 93, 44, 32, 123, 120, 32, 61, 32, 49, 125, 32, 93>>,
         <<91, 93>>, <<123, 125>>, <<123, 32, 98, 32, 61, 32, 49, 44, 32, 34, 233, 34, 46, 100, 32, 61, 32, 50, 32, 125>>,
         <<91, 10, 32, 49, 44, 32, 35, 32, 233, 10, 32, 50, 44, 10, 93>>,
         \* unit-variant names for enum targets: "a", "zz", ["a", "b"], ["a", "zz", "b"], [["a", 1], ["zz", 2]]
         <<34, 97, 34>>, <<34, 122, 122, 34>>, <<91, 34, 97, 34, 44, 32, 34, 98, 34, 93>>,
         <<91, 34, 97, 34, 44, 10, 32, 32, 34, 122, 122, 34, 44, 32, 34, 98, 34, 93>>,
         <<91, 91, 34, 97, 34, 44, 32, 49, 93, 44, 32, 91, 39, 122, 122, 39, 44, 32, 50, 93, 93>>}
Bodies ==
  {kf \o <<32, 61, 32>> \o v \o nl : kf \in KeyForms, v \in Vals, nl \in NL}
  \cup {kf \o <<46, 98, 32, 61, 32>> \o v \o nl : kf \in KeyForms, v \in {<<49>>, <<34, 233, 34>>}, nl \in NL}
  \cup {kf \o <<32, 46, 32, 98, 46, 34, 233, 34, 32, 61, 32, 49>> \o nl \o kf \o <<46, 99, 61, 50>> \o nl : kf \in KeyForms, nl \in NL}
  \cup {<<91>> \o kf \o <<93>> \o nl \o <<98, 32, 61, 32, 49>> \o nl \o <<34, 233, 34, 61, 91, 49, 93>> \o nl : kf \in KeyForms, nl \in NL}
  \cup {<<91>> \o kf \o <<46, 99, 93>> \o nl \o <<100, 32, 61, 32, 50>> \o nl : kf \in KeyForms, nl \in NL}
  \cup {<<91>> \o kf \o <<46, 99, 93>> \o nl \o <<91>> \o kf \o <<93>> \o nl \o <<98, 61, 49>> \o nl : kf \in KeyForms, nl \in NL}
  \cup {<<91, 91>> \o kf \o <<93, 93>> \o nl \o <<98, 32, 61, 32, 49>> \o nl \o <<91, 91, 32>> \o kf \o <<32, 93, 93>> \o nl : kf \in KeyForms, nl \in NL}
  \cup {<<91, 91>> \o kf \o <<46, 99, 93, 93>> \o nl \o <<100, 61, 49>> : kf \in KeyForms, nl \in NL}
  \cup {<<91, 97, 93>> \o nl \o kf \o <<61, 49>> \o nl : kf \in KeyForms, nl \in NL}
  \cup {<<97, 61, 49>> \o nl \o <<91>> \o kf \o <<46, 34, 233, 34, 93>> \o nl \o <<39, 128512, 39, 46, 120, 61, 49>> : kf \in KeyForms, nl \in NL}

VARIABLES lvl, text, kind
vars == <<lvl, text, kind>>
Init == lvl = 0 /\ text = <<>> /\ kind = "root"
Next == lvl = 0 /\ lvl' = 1 /\ kind' = "spandoc" /\ \E p \in Prefixes, b \in Bodies : text' = p \o b
Spec == Init /\ [][Next]_vars
Emit == lvl = 1 => PrintT(ToJson([text |-> text, kind |-> kind]))
Agree == lvl = 1 => ParseDocument(text).res = "ok"
=============================================================================
