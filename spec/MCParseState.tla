---------------------------- MODULE MCParseState ----------------------------
(* Refinement check: the implementation-shaped parser state (ParseStateImpl) *)
(* against the contract (TomlDoc), on every statement sequence of the scope  *)
(* of MCTomlDoc.  Also emits, per accepted behaviour, the flags the model    *)
(* predicts for every table (is_implicit, is_dotted, position) for the       *)
(* drift comparison with the real parser.                                    *)
EXTENDS MCTomlDoc, ParseStateImpl

RECURSIVE FoldPS(_, _, _)
FoldPS(ps, h, i) == IF i > Len(h) \/ ~ps.ok THEN ps ELSE FoldPS(ApplyPS(ps, h[i]), h, i + 1)
ImplRun(h) == LET ps == FoldPS(InitPS, h, 1) IN IF ps.ok THEN IntoDocument(ps) ELSE ps

\* spec tree s (entries carry prom) against the tree m of the implementation-shaped model
RECURSIVE Refined(_, _)
Refined(s, m) ==
  /\ s.k = m.k
  /\ CASE s.k = "t" ->
            /\ Len(s.v) = Len(m.v)
            /\ \A x \in 1..Len(s.v) : \E y \in 1..Len(m.v) : m.v[y].key = s.v[x].key /\ Refined(s.v[x].val, m.v[y].val)
            /\ LET fixed == {s.v[x].key : x \in {z \in 1..Len(s.v) : ~s.v[z].prom}} IN
               SelectSeq([x \in 1..Len(s.v) |-> s.v[x].key], LAMBDA k : k \in fixed) = SelectSeq([x \in 1..Len(m.v) |-> m.v[x].key], LAMBDA k : k \in fixed)
       [] s.k = "a" -> Len(s.v) = Len(m.v) /\ \A x \in 1..Len(s.v) : Refined(s.v[x], m.v[x])
       [] OTHER -> Plain(s) = m

Refines ==
  LET ps == ImplRun(hist) IN
  \/ res = "u1"                                   \* the contract leaves the document undecided
  \/ /\ ps.ok <=> res = "ok"
     /\ res = "ok" => Refined(Tree(st), TblTree(ps.root))

EmitFlags == (EMIT /\ res = "ok" /\ Len(hist) >= 1) =>
  PrintT(ToJson([text |-> RenderDoc(hist), flags |-> Flags(ImplRun(hist).root, <<>>)]))
=============================================================================
