------------------------------ MODULE TomlDoc ------------------------------
(***************************************************************************)
(* The definition rules of TOML 1.0.0 as a state machine over statements   *)
(* ([p], [[p]], p = v): one action per statement kind, the definition      *)
(* state of TomlDef as the state.  Property C09 is the action property     *)
(* NoOverwrite of this machine; its verdicts and trees are the oracle the  *)
(* implementation is replayed against (MCTomlDoc emits one text per        *)
(* behaviour).                                                             *)
(***************************************************************************)
EXTENDS TomlDef, SequencesExtLite

CONSTANTS Stmts,    \* the statement alphabet: records [kind, path, val] with path = <<[s, sp]...>>
          MaxN      \* maximal number of statements

VARIABLES st,    \* definition state [ns, cur]
          hist,  \* statements so far
          res    \* "ok" | "u1" | "rej"
vars == <<st, hist, res>>

Init == st = InitState /\ hist = <<>> /\ res = "ok"

Step(s) ==
  /\ res # "rej" /\ Len(hist) < MaxN
  /\ LET r == Apply(st, s) IN
     /\ hist' = Append(hist, s)
     /\ res' = IF r.res = "rej" THEN "rej" ELSE IF r.res = "u1" \/ res = "u1" THEN "u1" ELSE "ok"
     /\ st' = IF r.res = "rej" THEN st ELSE [ns |-> r.ns, cur |-> r.cur]

StdHeaderStep == \E s \in Stmts : s.kind = "std" /\ Step(s)
AotHeaderStep == \E s \in Stmts : s.kind = "aot" /\ Step(s)
KeyValStep == \E s \in Stmts : s.kind = "kv" /\ Step(s)
Next == StdHeaderStep \/ AotHeaderStep \/ KeyValStep
Spec == Init /\ [][Next]_vars

(***************************************************************************)
(* C09.  Once a path is defined nothing overwrites or merges it: its kind  *)
(* and (for values) its value never change, a table's way of definition    *)
(* changes only by the single promotion implicit -> header, existing       *)
(* children keep their order (new ones are appended), arrays of tables     *)
(* only grow.  No path ever disappears.                                    *)
(***************************************************************************)
NoOverwrite ==
  \A p \in DOMAIN st.ns :
    /\ p \in DOMAIN st'.ns
    /\ LET a == st.ns[p] b == st'.ns[p] IN
       /\ b.k = a.k
       /\ a.k = "val" => b.val = a.val
       /\ b.def = a.def \/ (a.def = "implicit" /\ b.def = "header")
       /\ IsPrefixOf(a.ch, b.ch)
       /\ b.n >= a.n
NoOverwriteProp == [][NoOverwrite]_vars

\* a rejected statement changes nothing
RejectIsAtomic == [][res' = "rej" => st' = st]_vars

\* structural well-formedness of the definition state
WellFormed ==
  /\ <<>> \in DOMAIN st.ns /\ st.ns[<<>>].k = "tbl"
  /\ st.cur \in DOMAIN st.ns /\ st.ns[st.cur].k = "tbl"
  /\ \A p \in DOMAIN st.ns : p # <<>> =>
       LET par == AllButLast(p) stp == LastEl(p) IN
       /\ par \in DOMAIN st.ns
       /\ stp[1] = "k" => st.ns[par].k = "tbl" /\ \E i \in 1..Len(st.ns[par].ch) : st.ns[par].ch[i] = stp[2]
       /\ stp[1] = "n" => st.ns[par].k = "aot" /\ stp[2] <= st.ns[par].n /\ st.ns[p].k = "tbl"
  /\ \A p \in DOMAIN st.ns : st.ns[p].k = "tbl" =>
       \A i, j \in 1..Len(st.ns[p].ch) : i # j => st.ns[p].ch[i] # st.ns[p].ch[j]
=============================================================================
