----------------------------- MODULE MCDateGen -----------------------------
(***************************************************************************)
(* Generator of date-time strings for C12: every spelling of in-range      *)
(* values, every field at and just beyond its range edge, and every        *)
(* single-symbol mutation over the date-time alphabet.  The recogniser     *)
(* (TomlLex.ParseDatetime) is the one definition of the language; the      *)
(* model cross-checks generator and recogniser on the valid family.        *)
(***************************************************************************)
EXTENDS TomlLex, TomlGen, Json

CONSTANTS MUTBASES   \* number of base strings that are mutated

Off(t, m) == [t |-> t, m |-> m]
Dt(date, time, off) == VDT(date, time, off, NoSpan)
Dates == {<<1979, 5, 27>>, <<2000, 2, 29>>, <<2023, 12, 31>>, <<1, 1, 1>>, <<9999, 12, 31>>, <<1900, 2, 28>>, <<2024, 2, 29>>, <<0, 1, 1>>}
Times == {<<7, 32, 0, 0>>, <<0, 0, 0, 0>>, <<23, 59, 59, 999999999>>, <<23, 59, 60, 0>>, <<12, 0, 0, 500000000>>, <<1, 2, 3, 120>>}
Offsets == {Off("N", 0), Off("Z", 0), Off("O", 0), Off("O", 60), Off("O", 0 - 420), Off("O", 1439), Off("O", 0 - 1439)}
Valid == {Dt(d, t, o) : d \in Dates, t \in Times, o \in Offsets}
         \cup {Dt(d, <<>>, Off("N", 0)) : d \in Dates} \cup {Dt(<<>>, t, Off("N", 0)) : t \in Times}

\* field-edge family: numbers written with the field's width, no validity constraint
DateStr(y, m, d) == Pad4(y) \o <<45>> \o Pad2(m) \o <<45>> \o Pad2(d)
TimeStr(h, mi, s) == Pad2(h) \o <<58>> \o Pad2(mi) \o <<58>> \o Pad2(s)
OffStrs == {<<>>, <<90>>, <<122>>} \cup {<<sg>> \o Pad2(h) \o <<58>> \o Pad2(m) : sg \in {43, 45}, h \in {0, 23, 24}, m \in {0, 59, 60}}
EdgeDates == {DateStr(y, m, d) : y \in {0, 1, 1900, 2000, 2023, 2024, 9999}, m \in 0..13, d \in {0, 1, 28, 29, 30, 31, 32}}
EdgeTimes == {TimeStr(h, mi, s) \o f : h \in {0, 23, 24}, mi \in {0, 59, 60}, s \in {0, 59, 60, 61}, f \in {<<>>, <<46>>, <<46, 53>>, <<46, 49, 50, 51, 52, 53, 54, 55, 56, 57, 48, 49, 50>>,
                                                                                                             \* 9, 10 and 11 fraction digits: the edges of the truncation to nanoseconds
                                                                                                             <<46, 49, 50, 51, 52, 53, 54, 55, 56, 57>>, <<46, 49, 50, 51, 52, 53, 54, 55, 56, 57, 48>>,
                                                                                                             <<46, 49, 50, 51, 52, 53, 54, 55, 56, 57, 48, 49>>}}
EdgeFull == {DateStr(1979, 5, 27) \o <<dl>> \o t \o o : dl \in {84, 116, 32}, t \in EdgeTimes, o \in OffStrs}
\* parts in combinations the grammar does not have: an offset on a time or a date alone, a delimiter without a time
EdgeCombos == {TimeStr(7, 32, 0) \o f \o o : f \in {<<>>, <<46, 53>>}, o \in OffStrs}
              \cup {DateStr(1979, 5, 27) \o o : o \in OffStrs}
              \cup {DateStr(1979, 5, 27) \o <<dl>> \o o : dl \in {84, 116, 32}, o \in OffStrs}
              \cup {TimeStr(7, 32, 0) \o <<dl>> \o DateStr(1979, 5, 27) : dl \in {84, 32}}
\* a digit of another script (fullwidth, Arabic-Indic, Tamil) in every digit position of a date, a time and a fraction
ReplaceAt(str, j, c) == [x \in 1..Len(str) |-> IF x = j THEN c ELSE str[x]]
ForeignDigits == LET base == DateStr(2000, 1, 1) \o <<84>> \o TimeStr(7, 32, 0) \o <<46, 53>> IN
                 {ReplaceAt(base, j, c) : j \in {x \in 1..Len(base) : base[x] >= 48 /\ base[x] <= 57}, c \in {65298, 1634, 3046}}
                 \cup {ReplaceAt(DateStr(2000, 1, 1), j, c) : j \in {1, 4, 6, 10}, c \in {65298, 1634, 3046}}
                 \cup {ReplaceAt(TimeStr(7, 32, 0), j, c) : j \in {1, 5, 8}, c \in {65298, 1634, 3046}}
Edges == EdgeDates \cup EdgeTimes \cup EdgeFull \cup EdgeCombos \cup ForeignDigits
         \cup {<<49, 57, 55, 57, 45, 53, 45, 50, 55>>, <<49, 57, 55, 57, 48, 53, 50, 55>>, <<55, 58, 51, 50, 58, 48, 48>>, <<48, 55, 58, 51, 50>>,
               <<49, 57, 55, 57, 45, 48, 53, 45, 50, 55, 84>>, <<49, 57, 55, 57, 45, 48, 53, 45, 50, 55, 32>>,
               <<49, 57, 55, 57, 45, 48, 53, 45, 50, 55, 84, 48, 55, 58, 51, 50>>, <<>>}

\* (the last three: digits of other scripts - fullwidth 2, Arabic-Indic 2, Tamil 0 - which are "numeric" but not ASCII)
Alphabet == {48, 49, 50, 51, 53, 54, 57, 45, 58, 46, 43, 84, 116, 90, 122, 32, 44, 65298, 1634, 3046}

VARIABLES lvl, text, kind, valid, nth
vars == <<lvl, text, kind, valid, nth>>
Init == lvl = 0 /\ text = <<>> /\ kind = "root" /\ valid = FALSE /\ nth = 0

PickValid == lvl = 0 /\ lvl' = 1 /\ kind' = "valid" /\ valid' = TRUE /\ nth' = 0
             /\ \E v \in Valid : text' \in DatetimeSpellings(v)
PickEdge == lvl = 0 /\ lvl' = 1 /\ kind' = "edge" /\ valid' = FALSE /\ nth' = 0 /\ text' \in Edges
RECURSIVE SumSeq(_)
SumSeq(s) == IF s = <<>> THEN 0 ELSE Head(s) + SumSeq(Tail(s))
Mutate ==
  /\ lvl = 1 /\ kind = "valid" /\ (SumSeq(text) * 7 + Len(text)) % 1000 < MUTBASES
  /\ lvl' = 2 /\ kind' = "mutant" /\ valid' = FALSE /\ nth' = 0
  /\ \/ \E p \in 1..Len(text), c \in Alphabet : c # text[p] /\ text' = [text EXCEPT ![p] = c]
     \/ \E p \in 1..(Len(text) + 1), c \in Alphabet : text' = SubSeq(text, 1, p - 1) \o <<c>> \o SubSeq(text, p, Len(text))
     \/ \E p \in 1..Len(text) : text' = SubSeq(text, 1, p - 1) \o SubSeq(text, p + 1, Len(text))
     \/ \E p \in 1..Len(text) : text' = SubSeq(text, 1, p - 1)
Next == PickValid \/ PickEdge \/ Mutate
Spec == Init /\ [][Next]_vars

WholeValue(t) == LET v == ValueAt(t, 1) IN IF v.ok /\ v.i = Len(t) + 1 THEN [ok |-> TRUE, v |-> v.v] ELSE [ok |-> FALSE, v |-> Dummy]
Emit == lvl >= 1 => PrintT(ToJson([text |-> text, kind |-> kind]))
\* generator vs recogniser: every spelling of an in-range value is in the language
GenLexAgree == (lvl = 1 /\ kind = "valid") => ParseDatetime(text).ok
\* and the language is closed under the document grammar: the same string is a value
DocAgree == lvl >= 1 => LET a == ParseDatetime(text) b == WholeValue(text) IN
                        a.ok <=> (b.ok /\ b.v.k = "dt")
=============================================================================
