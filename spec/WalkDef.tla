------------------------------ MODULE WalkDef ------------------------------
(***************************************************************************)
(* Visitor contract (C20): walking a document calls the matching visit     *)
(* method exactly once for every key/value pair, scalar, array, inline     *)
(* table, table and array-of-tables element, in document order.            *)
(*                                                                         *)
(* Expected(tree) is the callback sequence for the specification's tree    *)
(* of a document: pre-order, children in iteration order.  A call is       *)
(* [kind, path] with path the key names from the root.  The same contract  *)
(* is given as a stack machine (Init/Next below) whose behaviours TLC      *)
(* checks against Expected on small trees (MCWalk).                        *)
(***************************************************************************)
EXTENDS TomlDef

Call(kind, path) == [kind |-> kind, path |-> path]
\* a node written as a value (scalar, static array, inline table) vs. a table / array of tables of the document
IsValueNode(v) == v.k \notin {"t", "a"} \/ v.sp # NoSpan
ScalarKind(v) == CASE v.k = "s" -> "string" [] v.k = "i" -> "integer" [] v.k = "f" -> "float" [] v.k = "b" -> "boolean" [] v.k = "dt" -> "datetime"

RECURSIVE ExpV(_, _, _), ExpEntries(_, _, _), ExpElems(_, _, _)
\* every node that is a Value (scalar, static array, inline table) is first handed to visit_value
ExpV(v, path, inval) ==
  (IF inval THEN <<Call("value", path)>> ELSE <<>>) \o
  (CASE v.k = "t" -> <<Call(IF inval THEN "inline_table" ELSE "table", path)>> \o ExpEntries(v.v, path, inval)
     [] v.k = "a" -> IF inval THEN <<Call("array", path)>> \o ExpElems(v.v, path, TRUE)
                     ELSE <<Call("aot", path)>> \o ExpElems(v.v, path, FALSE)
     [] OTHER -> <<Call(ScalarKind(v), path)>>)
ExpEntries(es, path, inval) ==
  IF es = <<>> THEN <<>>
  ELSE LET e == Head(es) p == Append(path, e.key) IN
       <<Call("kv", p)>> \o ExpV(e.val, p, inval \/ IsValueNode(e.val)) \o ExpEntries(Tail(es), path, inval)
ExpElems(vs, path, inval) == IF vs = <<>> THEN <<>> ELSE ExpV(Head(vs), path, inval) \o ExpElems(Tail(vs), path, inval)

Expected(tree) == ExpV(tree, <<>>, FALSE)

RECURSIVE HasPromoted(_), HasPromotedSeq(_), HasPromotedEntries(_)
HasPromoted(v) == CASE v.k = "t" -> HasPromotedEntries(v.v) [] v.k = "a" -> HasPromotedSeq(v.v) [] OTHER -> FALSE
HasPromotedSeq(vs) == IF vs = <<>> THEN FALSE ELSE HasPromoted(Head(vs)) \/ HasPromotedSeq(Tail(vs))
HasPromotedEntries(es) == IF es = <<>> THEN FALSE ELSE Head(es).prom \/ HasPromoted(Head(es).val) \/ HasPromotedEntries(Tail(es))

\* paths of the promoted super-tables (their position among siblings is free)
RECURSIVE PromPaths(_, _), PromPathsSeq(_, _), PromPathsEntries(_, _)
PromPaths(v, path) == CASE v.k = "t" -> PromPathsEntries(v.v, path) [] v.k = "a" -> PromPathsSeq(v.v, path) [] OTHER -> {}
PromPathsSeq(vs, path) == IF vs = <<>> THEN {} ELSE PromPaths(Head(vs), path) \cup PromPathsSeq(Tail(vs), path)
PromPathsEntries(es, path) ==
  IF es = <<>> THEN {}
  ELSE LET p == Append(path, Head(es).key) IN
       (IF Head(es).prom THEN {p} ELSE {}) \cup PromPaths(Head(es).val, p) \cup PromPathsEntries(Tail(es), path)
UnderAny(path, ps) == \E q \in ps : Len(q) <= Len(path) /\ SubSeq(path, 1, Len(q)) = q
\* the calls outside the promoted subtrees, in order
Outside(calls, ps) == SelectSeq(calls, LAMBDA c : ~UnderAny(c.path, ps))

\* same calls, any order (used when the iteration position of a promoted super-table is free, DESIGN.md 3.5)
SameBag(a, b) == /\ Len(a) = Len(b)
                 /\ \A i \in 1..Len(a) : Cardinality({j \in 1..Len(a) : a[j] = a[i]}) = Cardinality({j \in 1..Len(b) : b[j] = a[i]})

\* the tree with every scalar of one kind replaced by a marker
RECURSIVE Rewrite(_, _, _), RewriteSeq(_, _, _), RewriteEntries(_, _, _)
Rewrite(v, kind, marker) ==
  CASE v.k = "t" -> [k |-> "t", v |-> RewriteEntries(v.v, kind, marker)]
    [] v.k = "a" -> [k |-> "a", v |-> RewriteSeq(v.v, kind, marker)]
    [] v.k = kind -> marker
    [] OTHER -> Plain(v)
RewriteSeq(vs, kind, marker) == IF vs = <<>> THEN <<>> ELSE <<Rewrite(Head(vs), kind, marker)>> \o RewriteSeq(Tail(vs), kind, marker)
RewriteEntries(es, kind, marker) ==
  IF es = <<>> THEN <<>> ELSE <<[key |-> Head(es).key, val |-> Rewrite(Head(es).val, kind, marker)]>> \o RewriteEntries(Tail(es), kind, marker)

=============================================================================
