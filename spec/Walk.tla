-------------------------------- MODULE Walk --------------------------------
(* The walker of C20 as a stack machine; definitions in WalkDef.             *)
EXTENDS WalkDef
(***************************************************************************)
(* The walker as a stack machine over one tree.                            *)
(***************************************************************************)
CONSTANT TreeUnderWalk
VARIABLES stack, trace
Frame(v, path, inval) == [v |-> v, path |-> path, inval |-> inval, kvOf |-> <<>>, asValue |-> inval]
KvFrame(e, path, inval) == [v |-> e.val, path |-> path, inval |-> inval, kvOf |-> <<e.key>>, asValue |-> FALSE]
WInit == stack = <<Frame(TreeUnderWalk, <<>>, FALSE)>> /\ trace = <<>>
Children(f) ==
  LET v == f.v IN
  CASE v.k = "t" -> [i \in 1..Len(v.v) |-> KvFrame(v.v[i], Append(f.path, v.v[i].key), f.inval \/ IsValueNode(v.v[i].val))]
    [] v.k = "a" -> [i \in 1..Len(v.v) |-> Frame(v.v[i], f.path, f.inval)]
    [] OTHER -> <<>>
NodeCall(f) ==
  LET v == f.v IN
  CASE v.k = "t" -> Call(IF f.inval THEN "inline_table" ELSE "table", f.path)
    [] v.k = "a" -> Call(IF f.inval THEN "array" ELSE "aot", f.path)
    [] OTHER -> Call(ScalarKind(v), f.path)
\* visit the node on top of the stack: a key/value frame first reports the pair, then the node itself
WNext ==
  /\ stack # <<>>
  /\ LET f == Head(stack) IN
     IF f.kvOf # <<>>
     THEN /\ trace' = Append(trace, Call("kv", f.path))
          /\ stack' = <<[f EXCEPT !.kvOf = <<>>, !.asValue = f.inval]>> \o Tail(stack)
     ELSE IF f.asValue
     THEN /\ trace' = Append(trace, Call("value", f.path))
          /\ stack' = <<[f EXCEPT !.asValue = FALSE]>> \o Tail(stack)
     ELSE /\ trace' = Append(trace, NodeCall(f))
          /\ stack' = Children(f) \o Tail(stack)
WSpec == WInit /\ [][WNext]_<<stack, trace>>
\* when the walk is over, the trace is exactly Expected
WalkMatchesExpected == stack = <<>> => trace = Expected(TreeUnderWalk)
=============================================================================
