------------------------------ MODULE DepthDef ------------------------------
(* Pure definitions of the nesting contract (C05): patterns, structural      *)
(* depth, what must be accepted, the bound.  See Depth.tla.                  *)
EXTENDS Naturals, Sequences
SizeNames == {"1", "L-2", "L-1", "L", "L+1", "4L"}
Size(nm, L) == CASE nm = "1" -> 1 [] nm = "L-2" -> L - 2 [] nm = "L-1" -> L - 1 [] nm = "L" -> L [] nm = "L+1" -> L + 1 [] nm = "4L" -> 4 * L

Layers1 == {[c |-> "A", n |-> n, s |-> "1"] : n \in SizeNames}
           \cup {[c |-> "I", n |-> n, s |-> s] : n \in SizeNames, s \in {"1", "L-1"}}
Patterns == {[hs |-> h[1], hk |-> h[2], ks |-> ks, layers |-> ls] :
               h \in {<<"0", "std">>} \cup ({"1", "L-1", "L", "4L"} \X {"std", "aot"}), ks \in {"1", "L-1", "L"},
               ls \in {<<>>} \cup {<<a>> : a \in Layers1} \cup {<<a, b>> : a, b \in Layers1}}

HS(p, L) == IF p.hs = "0" THEN 0 ELSE Size(p.hs, L)
RECURSIVE LayerDepth(_, _)
LayerDepth(ls, L) == IF ls = <<>> THEN 0
                     ELSE (IF Head(ls).c = "A" THEN Size(Head(ls).n, L) ELSE Size(Head(ls).n, L) * Size(Head(ls).s, L))
                          + LayerDepth(Tail(ls), L)
\* number of container levels between the root table and the scalar leaf
StructDepth(p, L) == HS(p, L) + (Size(p.ks, L) - 1) + LayerDepth(p.layers, L)

\* the bound every accepted document must respect: additive in the limit
Bound(L) == 4 * L

\* "documents nested below the limit in each single construct are still accepted"
Single(p) == \/ (p.layers = <<>>)
             \/ (p.hs = "0" /\ p.ks = "1" /\ Len(p.layers) = 1 /\ (p.layers[1].c = "A" \/ p.layers[1].s = "1"))
Below(nm) == nm \in {"0", "1", "L-2", "L-1"}
MustAccept(p) == /\ Single(p) /\ Below(p.hs) /\ Below(p.ks)
                 /\ \A i \in 1..Len(p.layers) : Below(p.layers[i].n) /\ Below(p.layers[i].s)

=============================================================================
