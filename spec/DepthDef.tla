------------------------------ MODULE DepthDef ------------------------------
(* Pure definitions of the nesting contract (C05): patterns, structural      *)
(* depth, what must be accepted, the bound.  See Depth.tla.                  *)
EXTENDS Naturals, Sequences
SizeNames == {"1", "L-2", "L-1", "L", "L+1", "4L"}
\* "H" (half the limit) is used only for chains of array-of-tables headers, which nest two levels per key
Size(nm, L) == CASE nm = "1" -> 1 [] nm = "2" -> 2 [] nm = "H" -> (L - 1) \div 2 [] nm = "L-2" -> L - 2 [] nm = "L-1" -> L - 1 [] nm = "L" -> L [] nm = "L+1" -> L + 1 [] nm = "4L" -> 4 * L

\* "AE" / "IE": like "A" / "I" with an empty container as the first sibling at every level ([[], [[], ... ]] and
\* {e={}, k={e={}, k=...}}): an empty container must neither take nor give back a level
Layers1 == {[c |-> "A", n |-> n, s |-> "1"] : n \in SizeNames}
           \cup {[c |-> "I", n |-> n, s |-> s] : n \in SizeNames, s \in {"1", "2", "L-1"}}
           \cup {[c |-> "AE", n |-> n, s |-> "1"] : n \in {"L-2", "L", "4L"}}
           \cup {[c |-> "IE", n |-> n, s |-> "1"] : n \in {"L-2", "L", "4L"}}
Patterns == {[hs |-> h[1], hk |-> h[2], ks |-> ks, layers |-> ls] :
               h \in {<<"0", "std">>} \cup ({"1", "L-1", "L", "4L"} \X {"std", "aot"}) \cup ({"1", "H", "L-1"} \X {"chain"})
                     \cup ({"2", "H"} \X {"stairs"}), ks \in {"1", "L-1", "L"},
               ls \in {<<>>} \cup {<<a>> : a \in Layers1} \cup {<<a, b>> : a, b \in Layers1}}

\* hk = "chain": the headers [[k]], [[k.k]], ... up to hs keys - an array and a table per key
\* hk = "stairs": hs headers, each extending the path of the one before by L - 20 new keys (every header path but
\* the first is longer than the limit allows: the document must be refused however the levels are counted)
HS(p, L) == IF p.hs = "0" THEN 0 ELSE IF p.hk = "chain" THEN 2 * Size(p.hs, L)
            ELSE IF p.hk = "stairs" THEN Size(p.hs, L) * (L - 20) ELSE Size(p.hs, L)
RECURSIVE LayerDepth(_, _)
LayerDepth(ls, L) == IF ls = <<>> THEN 0
                     \* (the empty sibling at the innermost level sits beside the scalar: same number of levels above it;
                     \* entering it costs the parser one more level, which is why these layers use L-2 where others use L-1)
                     ELSE (IF Head(ls).c \in {"A", "AE", "IE"} THEN Size(Head(ls).n, L) ELSE Size(Head(ls).n, L) * Size(Head(ls).s, L))
                          + LayerDepth(Tail(ls), L)
\* number of container levels between the root table and the scalar leaf
StructDepth(p, L) == HS(p, L) + (Size(p.ks, L) - 1) + LayerDepth(p.layers, L)

\* the bound every accepted document must respect: additive in the limit
Bound(L) == 4 * L

\* "documents nested below the limit in each single construct are still accepted"
Single(p) == \/ (p.layers = <<>>)
             \/ (p.hs = "0" /\ p.ks = "1" /\ Len(p.layers) = 1 /\ (p.layers[1].c \in {"A", "AE"} \/ p.layers[1].s = "1"))
Below(nm) == nm \in {"0", "1", "2", "H", "L-2", "L-1"}
\* levels the value of the pair nests (what the parser's counter sees: an empty sibling costs one more level)
RECURSIVE ValueNest(_, _)
ValueNest(ls, L) == IF ls = <<>> THEN 0
                    ELSE (IF Head(ls).c \in {"AE", "IE"} THEN Size(Head(ls).n, L) + 1
                          ELSE IF Head(ls).c = "A" THEN Size(Head(ls).n, L) ELSE Size(Head(ls).n, L) * Size(Head(ls).s, L))
                         + ValueNest(Tail(ls), L)
\* "documents nested below the limit in each single construct are still accepted": the header path, the key path
\* and the value are three constructs; each of them nests fewer than L levels (a chain of [[headers]] nests two per key)
MustAcceptAt(p, L) == /\ p.hk # "stairs" /\ HS(p, L) < L /\ (p.hs # "0" => Size(p.hs, L) < L) /\ Size(p.ks, L) < L /\ ValueNest(p.layers, L) < L
                      /\ \A i \in 1..Len(p.layers) : Size(p.layers[i].s, L) < L
\* (the symbolic version used when patterns are emitted: sizes below the limit by name, one construct at a time)
MustAccept(p) == /\ p.hk # "stairs" /\ Single(p) /\ Below(p.hs) /\ Below(p.ks) /\ (p.hk = "chain" => p.hs \in {"1", "H"})
                 /\ \A i \in 1..Len(p.layers) : Below(p.layers[i].n) /\ Below(p.layers[i].s)

=============================================================================
