------------------------------ MODULE TomlLex ------------------------------
(***************************************************************************)
(* Executable transcription of toml.abnf (TOML 1.0.0) as recursive descent *)
(* over a sequence of Unicode scalar values, with semantic actions: the    *)
(* decoded value of every token, its span, and the statement list of a     *)
(* document.  Written from the standard's ABNF and prose (and RFC 3339 for  *)
(* the field ranges), not from the implementation.                         *)
(*                                                                         *)
(* Lexer results are records [ok, i, v]: on success i is the position      *)
(* after the construct and v its value, on failure i is where it failed.   *)
(* Spans are <<from, to>> in code point positions (1-based, to exclusive); *)
(* ByteSpan converts them to UTF-8 byte offsets.                           *)
(***************************************************************************)
EXTENDS Chars, TomlDef, TLC

Fail(i) == [ok |-> FALSE, i |-> i, v |-> Dummy]
Ok(i, v) == [ok |-> TRUE, i |-> i, v |-> v]

\* ------------------------------ trivia ------------------------------
RECURSIVE SkipWs(_, _)
SkipWs(t, i) == IF IsWs(At(t, i)) THEN SkipWs(t, i + 1) ELSE i

RECURSIVE SkipNonEol(_, _)
SkipNonEol(t, i) == IF NonEol(At(t, i)) THEN SkipNonEol(t, i + 1) ELSE i

\* newline = LF / CRLF : position after it, or 0
NewlineEnd(t, i) == IF At(t, i) = 10 THEN i + 1
                    ELSE IF At(t, i) = 13 /\ At(t, i + 1) = 10 THEN i + 2 ELSE 0

\* ws [ comment ] ( newline / end of input )
LineTrail(t, i) ==
  LET a == SkipWs(t, i)
      b == IF At(t, a) = 35 THEN SkipNonEol(t, a + 1) ELSE a
  IN IF b > Len(t) THEN [ok |-> TRUE, i |-> b, nl |-> FALSE]
     ELSE IF NewlineEnd(t, b) # 0 THEN [ok |-> TRUE, i |-> NewlineEnd(t, b), nl |-> TRUE]
     ELSE [ok |-> FALSE, i |-> b, nl |-> FALSE]

\* ws-comment-newline = *( wschar / [ comment ] newline )
RECURSIVE WsCommentNl(_, _)
WsCommentNl(t, i) ==
  LET a == SkipWs(t, i) c == At(t, a) IN
  IF c = 35 THEN LET b == SkipNonEol(t, a + 1) IN
       IF NewlineEnd(t, b) # 0 THEN WsCommentNl(t, NewlineEnd(t, b)) ELSE [ok |-> FALSE, i |-> b]
  ELSE IF NewlineEnd(t, a) # 0 THEN WsCommentNl(t, NewlineEnd(t, a))
  ELSE [ok |-> TRUE, i |-> a]

\* ------------------------------ strings ------------------------------
RECURSIVE HexN(_, _, _, _)
HexN(t, i, n, acc) == IF n = 0 THEN [ok |-> TRUE, i |-> i, v |-> acc]
                      ELSE IF IsHex(At(t, i)) /\ acc < 1114112 THEN HexN(t, i + 1, n - 1, acc * 16 + HexVal(t[i]))
                      ELSE IF IsHex(At(t, i)) THEN HexN(t, i + 1, n - 1, 1114112)
                      ELSE [ok |-> FALSE, i |-> i, v |-> 0]

\* escape-seq-char at i (the character after the backslash)
Escape(t, i) ==
  LET e == At(t, i) IN
  CASE e = 98 -> Ok(i + 1, 8)
    [] e = 116 -> Ok(i + 1, 9)
    [] e = 110 -> Ok(i + 1, 10)
    [] e = 102 -> Ok(i + 1, 12)
    [] e = 114 -> Ok(i + 1, 13)
    [] e = 34 -> Ok(i + 1, 34)
    [] e = 92 -> Ok(i + 1, 92)
    [] e = 117 -> LET h == HexN(t, i + 1, 4, 0) IN IF h.ok /\ IsScalar(h.v) THEN Ok(h.i, h.v) ELSE Fail(i)
    [] e = 85 -> LET h == HexN(t, i + 1, 8, 0) IN IF h.ok /\ IsScalar(h.v) THEN Ok(h.i, h.v) ELSE Fail(i)
    [] OTHER -> Fail(i)

\* bodies return v = <<content, content-with-source-line-endings>>
RECURSIVE BasicBody(_, _, _)
BasicBody(t, i, acc) ==
  LET c == At(t, i) IN
  IF c = 34 THEN Ok(i + 1, acc)
  ELSE IF c = 92 THEN LET e == Escape(t, i + 1) IN IF e.ok THEN BasicBody(t, e.i, Append(acc, e.v)) ELSE Fail(e.i)
  ELSE IF BasicUnescaped(c) THEN BasicBody(t, i + 1, Append(acc, c))
  ELSE Fail(i)

RECURSIVE LiteralBody(_, _, _)
LiteralBody(t, i, acc) ==
  LET c == At(t, i) IN
  IF c = 39 THEN Ok(i + 1, acc)
  ELSE IF LiteralChar(c) THEN LiteralBody(t, i + 1, Append(acc, c))
  ELSE Fail(i)

RECURSIVE RunLen(_, _, _)
RunLen(t, i, q) == IF At(t, i) = q THEN 1 + RunLen(t, i + 1, q) ELSE 0

Rep(c, n) == [k \in 1..n |-> c]

RECURSIVE SkipWsNl(_, _)
SkipWsNl(t, i) == IF IsWs(At(t, i)) THEN SkipWsNl(t, i + 1)
                  ELSE IF NewlineEnd(t, i) # 0 THEN SkipWsNl(t, NewlineEnd(t, i)) ELSE i

\* acc = content with line breaks as LF; raw = content with the source's line breaks
RECURSIVE MlBasicBody(_, _, _, _)
MlBasicBody(t, i, acc, raw) ==
  LET c == At(t, i) IN
  IF c = 34 THEN
    LET q == RunLen(t, i, 34) IN
    IF q <= 2 THEN MlBasicBody(t, i + q, acc \o Rep(34, q), raw \o Rep(34, q))
    ELSE IF q <= 5 THEN Ok(i + q, <<acc \o Rep(34, q - 3), raw \o Rep(34, q - 3)>>)
    ELSE Fail(i + 5)
  ELSE IF c = 92 THEN
    LET a == SkipWs(t, i + 1) IN
    IF NewlineEnd(t, a) # 0 THEN MlBasicBody(t, SkipWsNl(t, a), acc, raw)
    ELSE LET e == Escape(t, i + 1) IN IF e.ok THEN MlBasicBody(t, e.i, Append(acc, e.v), Append(raw, e.v)) ELSE Fail(e.i)
  ELSE IF c = 10 THEN MlBasicBody(t, i + 1, Append(acc, 10), Append(raw, 10))
  ELSE IF c = 13 /\ At(t, i + 1) = 10 THEN MlBasicBody(t, i + 2, Append(acc, 10), raw \o <<13, 10>>)
  ELSE IF BasicUnescaped(c) THEN MlBasicBody(t, i + 1, Append(acc, c), Append(raw, c))
  ELSE Fail(i)

RECURSIVE MlLiteralBody(_, _, _, _)
MlLiteralBody(t, i, acc, raw) ==
  LET c == At(t, i) IN
  IF c = 39 THEN
    LET q == RunLen(t, i, 39) IN
    IF q <= 2 THEN MlLiteralBody(t, i + q, acc \o Rep(39, q), raw \o Rep(39, q))
    ELSE IF q <= 5 THEN Ok(i + q, <<acc \o Rep(39, q - 3), raw \o Rep(39, q - 3)>>)
    ELSE Fail(i + 5)
  ELSE IF c = 10 THEN MlLiteralBody(t, i + 1, Append(acc, 10), Append(raw, 10))
  ELSE IF c = 13 /\ At(t, i + 1) = 10 THEN MlLiteralBody(t, i + 2, Append(acc, 10), raw \o <<13, 10>>)
  ELSE IF LiteralChar(c) THEN MlLiteralBody(t, i + 1, Append(acc, c), Append(raw, c))
  ELSE Fail(i)

VStr(cps, alt, ml, sp) == [k |-> "s", v |-> cps, alt |-> alt, ml |-> ml, sp |-> sp]

\* string value at i (t[i] is a quote character)
StringVal(t, i) ==
  LET c == At(t, i) IN
  IF c = 34 THEN
    IF At(t, i + 1) = 34 /\ At(t, i + 2) = 34
    THEN LET s == IF NewlineEnd(t, i + 3) # 0 THEN NewlineEnd(t, i + 3) ELSE i + 3
             r == MlBasicBody(t, s, <<>>, <<>>)
         IN IF r.ok THEN Ok(r.i, VStr(r.v[1], r.v[2], TRUE, <<i, r.i>>)) ELSE Fail(r.i)
    ELSE LET r == BasicBody(t, i + 1, <<>>) IN IF r.ok THEN Ok(r.i, VStr(r.v, r.v, FALSE, <<i, r.i>>)) ELSE Fail(r.i)
  ELSE
    IF At(t, i + 1) = 39 /\ At(t, i + 2) = 39
    THEN LET s == IF NewlineEnd(t, i + 3) # 0 THEN NewlineEnd(t, i + 3) ELSE i + 3
             r == MlLiteralBody(t, s, <<>>, <<>>)
         IN IF r.ok THEN Ok(r.i, VStr(r.v[1], r.v[2], TRUE, <<i, r.i>>)) ELSE Fail(r.i)
    ELSE LET r == LiteralBody(t, i + 1, <<>>) IN IF r.ok THEN Ok(r.i, VStr(r.v, r.v, FALSE, <<i, r.i>>)) ELSE Fail(r.i)

\* ------------------------------ keys ------------------------------
RECURSIVE BareKey(_, _, _)
BareKey(t, i, acc) == IF IsBare(At(t, i)) THEN BareKey(t, i + 1, Append(acc, t[i]))
                      ELSE IF acc = <<>> THEN Fail(i) ELSE Ok(i, acc)

\* simple-key: v = [s |-> code points, sp |-> span]
SimpleKey(t, i) ==
  LET c == At(t, i)
      r == IF c = 34 THEN BasicBody(t, i + 1, <<>>)
           ELSE IF c = 39 THEN LiteralBody(t, i + 1, <<>>)
           ELSE BareKey(t, i, <<>>)
  IN IF r.ok THEN Ok(r.i, [s |-> r.v, sp |-> <<i, r.i>>]) ELSE Fail(r.i)

\* key = simple-key *( ws "." ws simple-key ); leading ws already skipped, trailing ws consumed
RECURSIVE KeyPath(_, _, _)
KeyPath(t, i, acc) ==
  LET k == SimpleKey(t, i) IN
  IF ~k.ok THEN Fail(k.i)
  ELSE LET a == SkipWs(t, k.i) IN
       IF At(t, a) = 46 THEN KeyPath(t, SkipWs(t, a + 1), Append(acc, k.v))
       ELSE Ok(a, Append(acc, k.v))

\* ------------------------------ numbers ------------------------------
\* DIGIT *( DIGIT / "_" DIGIT ) for the digit class `kind`; v = digit values
RECURSIVE DigitsUS(_, _, _, _)
DigitsUS(t, i, kind, acc) ==
  LET P(c) == CASE kind = "d" -> IsDigit(c) [] kind = "x" -> IsHex(c) [] kind = "o" -> IsOct(c) [] OTHER -> IsBin(c)
      c == At(t, i) IN
  IF P(c) THEN DigitsUS(t, i + 1, kind, Append(acc, HexVal(c)))
  ELSE IF c = 95 /\ acc # <<>> /\ P(At(t, i + 1)) THEN DigitsUS(t, i + 1, kind, acc)
  ELSE IF c = 95 THEN Fail(i)
  ELSE IF acc = <<>> THEN Fail(i) ELSE Ok(i, acc)

RECURSIVE StripZeros(_)
StripZeros(d) == IF Len(d) > 1 /\ d[1] = 0 THEN StripZeros(Tail(d)) ELSE d

RECURSIVE StripTrail(_)
StripTrail(d) == IF d # <<>> /\ d[Len(d)] = 0 THEN StripTrail(AllButLast(d)) ELSE d

RECURSIVE LeadZeros(_)
LeadZeros(d) == IF d # <<>> /\ d[1] = 0 THEN 1 + LeadZeros(Tail(d)) ELSE 0

\* lexicographic a <= b on digit sequences (b at least as long as a)
RECURSIVE SeqLe(_, _)
SeqLe(a, b) == IF a = <<>> THEN TRUE
               ELSE IF a[1] < b[1] THEN TRUE ELSE IF a[1] > b[1] THEN FALSE ELSE SeqLe(Tail(a), Tail(b))

\* d <= m as natural numbers (both without leading zeros)
NatLe(d, m) == Len(d) < Len(m) \/ (Len(d) = Len(m) /\ SeqLe(d, m))

MaxPos == <<9,2,2,3,3,7,2,0,3,6,8,5,4,7,7,5,8,0,7>>  \* 2^63 - 1
MaxNeg == <<9,2,2,3,3,7,2,0,3,6,8,5,4,7,7,5,8,0,8>>  \* 2^63
I64InRange(neg, d) == NatLe(StripZeros(d), IF neg THEN MaxNeg ELSE MaxPos)

RECURSIVE NatDigits(_)
NatDigits(n) == IF n < 10 THEN <<n>> ELSE Append(NatDigits(n \div 10), n % 10)
RECURSIVE MulAddR(_, _, _, _, _)
MulAddR(d, j, m, carry, acc) ==
  IF j = 0 THEN (IF carry = 0 THEN acc ELSE NatDigits(carry) \o acc)
  ELSE LET x == d[j] * m + carry IN MulAddR(d, j - 1, m, x \div 10, <<x % 10>> \o acc)
\* decimal digits of d * m + a
MulAdd(d, m, a) == StripZeros(MulAddR(d, Len(d), m, a, <<>>))
\* decimal digits of the number whose base-`b` digit values are ds
RECURSIVE ToDecimal(_, _, _)
ToDecimal(ds, b, acc) == IF ds = <<>> THEN acc ELSE ToDecimal(Tail(ds), b, MulAdd(acc, b, Head(ds)))

\* decimal value of a digit sequence, saturating above 100000
RECURSIVE DecVal(_, _)
DecVal(d, acc) == IF d = <<>> \/ acc > 100000 THEN acc ELSE DecVal(Tail(d), acc * 10 + d[1])

\* 2^1024 - 2^970: a decimal literal of at least this magnitude rounds to infinity (L2)
Thresh == <<1,7,9,7,6,9,3,1,3,4,8,6,2,3,1,5,8,0,7,9,3,7,2,8,9,7,1,4,0,5,3,0,3,4,1,5,0,7,9,9,3,4,1,3,2,7,1,0,0,3,7,8,2,6,9,3,6,1,7,3,7,7,8,9,8,0,4,4,4,9,6,8,2,9,2,7,6,4,7,5,0,9,4,6,6,4,9,0,1,7,9,7,7,5,8,7,2,0,7,0,9,6,3,3,0,2,8,6,4,1,6,6,9,2,8,8,7,9,1,0,9,4,6,5,5,5,5,4,7,8,5,1,9,4,0,4,0,2,6,3,0,6,5,7,4,8,8,6,7,1,5,0,5,8,2,0,6,8,1,9,0,8,9,0,2,0,0,0,7,0,8,3,8,3,6,7,6,2,7,3,8,5,4,8,4,5,8,1,7,7,1,1,5,3,1,7,6,4,4,7,5,7,3,0,2,7,0,0,6,9,8,5,5,5,7,1,3,6,6,9,5,9,6,2,2,8,4,2,9,1,4,8,1,9,8,6,0,8,3,4,9,3,6,4,7,5,2,9,2,7,1,9,0,7,4,1,6,8,4,4,4,3,6,5,5,1,0,7,0,4,3,4,2,7,1,1,5,5,9,6,9,9,5,0,8,0,9,3,0,4,2,8,8,0,1,7,7,9,0,4,1,7,4,4,9,7,7,9,2>>
PadTo(d, n) == [k \in 1..n |-> IF k <= Len(d) THEN d[k] ELSE 0]

\* normal form of ip "." fp "e" (expNeg) ed: [c, d, e]; c = "over" when the magnitude overflows
FloatNorm(ip, fp, expNeg, ed) ==
  LET all == ip \o fp
      lz == LeadZeros(all)
      sig == StripTrail(SubSeq(all, lz + 1, Len(all)))
      ev == DecVal(StripZeros(ed), 0)
      e10 == IF expNeg THEN 0 - ev ELSE ev
      E == (Len(ip) - 1 - lz) + e10
  IN IF sig = <<>> THEN [c |-> "zero", d |-> <<>>, e |-> 0]
     ELSE IF E > 308 THEN [c |-> "over", d |-> sig, e |-> E]
     ELSE IF E = 308 /\ SeqLe(Thresh, PadTo(sig, 309)) THEN [c |-> "over", d |-> sig, e |-> E]
     ELSE [c |-> "fin", d |-> sig, e |-> E]

Lit(t, i, s) == \A k \in 1..Len(s) : At(t, i + k - 1) = s[k]
INF == <<105, 110, 102>>
NAN == <<110, 97, 110>>

NumberAt(t, i) ==
  LET c == At(t, i)
      signed == c = 43 \/ c = 45
      neg == c = 45
      j == IF signed THEN i + 1 ELSE i
      c1 == At(t, j) c2 == At(t, j + 1) IN
  IF Lit(t, j, INF) THEN Ok(j + 3, VF("inf", neg, <<>>, 0, <<i, j + 3>>))
  ELSE IF Lit(t, j, NAN) THEN Ok(j + 3, VF("nan", neg, <<>>, 0, <<i, j + 3>>))
  ELSE IF ~signed /\ c1 = 48 /\ c2 \in {120, 111, 98} THEN
     LET kind == IF c2 = 120 THEN "x" ELSE IF c2 = 111 THEN "o" ELSE "b"
         base == IF c2 = 120 THEN 16 ELSE IF c2 = 111 THEN 8 ELSE 2
         d == DigitsUS(t, j + 2, kind, <<>>) IN
     IF ~d.ok THEN Fail(d.i)
     ELSE LET dec == ToDecimal(d.v, base, <<0>>) IN
          IF NatLe(dec, MaxPos) THEN Ok(d.i, VI(FALSE, dec, <<i, d.i>>)) ELSE Fail(j)
  ELSE IF ~IsDigit(c1) THEN Fail(j)
  ELSE
    \* dec-int: "0" alone or digit1-9 followed by digits with underscores
    LET ip == IF c1 = 48 THEN Ok(j + 1, <<0>>) ELSE DigitsUS(t, j, "d", <<>>) IN
    IF ~ip.ok THEN Fail(ip.i)
    ELSE LET n == At(t, ip.i) IN
      IF n = 46 \/ n = 101 \/ n = 69 THEN
        LET fr == IF n = 46 THEN DigitsUS(t, ip.i + 1, "d", <<>>) ELSE Ok(ip.i, <<>>) IN
        IF ~fr.ok THEN Fail(fr.i)
        ELSE LET e == At(t, fr.i) IN
          IF e = 101 \/ e = 69 THEN
            LET s == At(t, fr.i + 1)
                es == s = 43 \/ s = 45
                ed == DigitsUS(t, IF es THEN fr.i + 2 ELSE fr.i + 1, "d", <<>>) IN
            IF ~ed.ok THEN Fail(ed.i)
            ELSE LET f == FloatNorm(ip.v, fr.v, s = 45, ed.v) IN
                 IF f.c = "over" THEN Fail(i) ELSE Ok(ed.i, VF(f.c, neg, f.d, f.e, <<i, ed.i>>))
          ELSE LET f == FloatNorm(ip.v, fr.v, FALSE, <<0>>) IN
               IF f.c = "over" THEN Fail(i) ELSE Ok(fr.i, VF(f.c, neg, f.d, f.e, <<i, fr.i>>))
      ELSE IF I64InRange(neg, ip.v)
           THEN Ok(ip.i, VI(neg /\ StripZeros(ip.v) # <<0>>, StripZeros(ip.v), <<i, ip.i>>))
           ELSE Fail(i)

\* ------------------------------ date-times ------------------------------
IsLeap(y) == (y % 4 = 0) /\ ((y % 100 # 0) \/ (y % 400 = 0))
DaysIn(y, m) == IF m = 2 THEN (IF IsLeap(y) THEN 29 ELSE 28) ELSE IF m \in {4, 6, 9, 11} THEN 30 ELSE 31
D2(t, i) == IF IsDigit(At(t, i)) /\ IsDigit(At(t, i + 1)) THEN (t[i] - 48) * 10 + (t[i + 1] - 48) ELSE 0 - 1

\* 1*DIGIT, keeping the first nine (truncation to nanoseconds)
RECURSIVE FracDigits(_, _, _, _)
FracDigits(t, i, n, acc) == IF IsDigit(At(t, i)) THEN FracDigits(t, i + 1, n + 1, IF n < 9 THEN acc * 10 + (t[i] - 48) ELSE acc)
                            ELSE IF n = 0 THEN Fail(i) ELSE Ok(i, <<acc, n>>)
RECURSIVE Pow10(_)
Pow10(n) == IF n = 0 THEN 1 ELSE 10 * Pow10(n - 1)

\* partial-time = HH ":" MM ":" SS [ "." 1*DIGIT ];  v = <<h, mi, s, nanos>>
TimeAt(t, i) ==
  LET h == D2(t, i) m == D2(t, i + 3) s == D2(t, i + 6) IN
  IF h < 0 \/ At(t, i + 2) # 58 \/ m < 0 \/ At(t, i + 5) # 58 \/ s < 0 THEN Fail(i)
  ELSE IF h > 23 \/ m > 59 \/ s > 60 THEN Fail(i)
  ELSE IF At(t, i + 8) = 46 THEN
         LET f == FracDigits(t, i + 9, 0, 0) IN
         IF f.ok THEN Ok(f.i, <<h, m, s, IF f.v[2] >= 9 THEN f.v[1] ELSE f.v[1] * Pow10(9 - f.v[2])>>) ELSE Fail(f.i)
       ELSE Ok(i + 8, <<h, m, s, 0>>)

NoOff == [t |-> "N", m |-> 0]
OffsetAt(t, i) ==
  LET c == At(t, i) IN
  IF c = 90 \/ c = 122 THEN Ok(i + 1, [t |-> "Z", m |-> 0])
  ELSE IF c = 43 \/ c = 45 THEN
    LET h == D2(t, i + 1) m == D2(t, i + 4) IN
    IF h < 0 \/ At(t, i + 3) # 58 \/ m < 0 \/ h > 23 \/ m > 59 THEN Fail(i)
    ELSE Ok(i + 6, [t |-> "O", m |-> (IF c = 45 THEN 0 - 1 ELSE 1) * (h * 60 + m)])
  ELSE Ok(i, NoOff)

IsDateStart(t, i) == IsDigit(At(t, i)) /\ IsDigit(At(t, i + 1)) /\ IsDigit(At(t, i + 2)) /\ IsDigit(At(t, i + 3)) /\ At(t, i + 4) = 45
IsTimeStart(t, i) == IsDigit(At(t, i)) /\ IsDigit(At(t, i + 1)) /\ At(t, i + 2) = 58

DateTimeAt(t, i) ==
  IF IsDateStart(t, i) THEN
    LET y == (t[i] - 48) * 1000 + (t[i + 1] - 48) * 100 + (t[i + 2] - 48) * 10 + (t[i + 3] - 48)
        mo == D2(t, i + 5) d == D2(t, i + 8) IN
    IF mo < 1 \/ mo > 12 \/ At(t, i + 7) # 45 \/ d < 1 THEN Fail(i)
    ELSE IF d > DaysIn(y, mo) THEN Fail(i + 8)
    ELSE LET j == i + 10 c == At(t, j) IN
      IF (c = 84 \/ c = 116) \/ (c = 32 /\ IsTimeStart(t, j + 1)) THEN
        LET tm == TimeAt(t, j + 1) IN
        IF ~tm.ok THEN Fail(tm.i)
        ELSE LET o == OffsetAt(t, tm.i) IN
             IF ~o.ok THEN Fail(o.i) ELSE Ok(o.i, VDT(<<y, mo, d>>, tm.v, o.v, <<i, o.i>>))
      ELSE Ok(j, VDT(<<y, mo, d>>, <<>>, NoOff, <<i, j>>))
  ELSE
    LET tm == TimeAt(t, i) IN IF tm.ok THEN Ok(tm.i, VDT(<<>>, tm.v, NoOff, <<i, tm.i>>)) ELSE Fail(tm.i)

\* ------------------------------ values ------------------------------
RECURSIVE ValueAt(_, _), ArrayBody(_, _, _, _), InlineBody(_, _, _, _)
ValueAt(t, i) ==
  LET c == At(t, i) IN
  IF c = 34 \/ c = 39 THEN StringVal(t, i)
  ELSE IF c = 91 THEN ArrayBody(t, i + 1, i, <<>>)
  ELSE IF c = 123 THEN InlineBody(t, SkipWs(t, i + 1), i, <<>>)
  ELSE IF c = 116 THEN IF Lit(t, i, <<116, 114, 117, 101>>) THEN Ok(i + 4, VB(TRUE, <<i, i + 4>>)) ELSE Fail(i)
  ELSE IF c = 102 THEN IF Lit(t, i, <<102, 97, 108, 115, 101>>) THEN Ok(i + 5, VB(FALSE, <<i, i + 5>>)) ELSE Fail(i)
  ELSE IF c = 105 \/ c = 110 THEN NumberAt(t, i)
  ELSE IF IsDateStart(t, i) \/ IsTimeStart(t, i) THEN DateTimeAt(t, i)
  ELSE IF c = 43 \/ c = 45 \/ IsDigit(c) THEN NumberAt(t, i)
  ELSE Fail(i)

\* after "[" ; s = position of "[", acc = elements so far
ArrayBody(t, i, s, acc) ==
  LET a == WsCommentNl(t, i) IN
  IF ~a.ok THEN Fail(a.i)
  ELSE IF At(t, a.i) = 93 THEN Ok(a.i + 1, VA(acc, <<s, a.i + 1>>))
  ELSE LET v == ValueAt(t, a.i) IN
    IF ~v.ok THEN Fail(v.i)
    ELSE LET b == WsCommentNl(t, v.i) IN
      IF ~b.ok THEN Fail(b.i)
      ELSE IF At(t, b.i) = 44 THEN ArrayBody(t, b.i + 1, s, Append(acc, v.v))
      ELSE IF At(t, b.i) = 93 THEN Ok(b.i + 1, VA(Append(acc, v.v), <<s, b.i + 1>>))
      ELSE Fail(b.i)

\* after "{" ws ; s = position of "{", ps = pairs so far
InlineBody(t, i, s, ps) ==
  IF At(t, i) = 125 /\ ps = <<>> THEN Ok(i + 1, VT(<<>>, <<s, i + 1>>))
  ELSE LET k == KeyPath(t, i, <<>>) IN
    IF ~k.ok THEN Fail(k.i)
    ELSE IF At(t, k.i) # 61 THEN Fail(k.i)
    ELSE LET v == ValueAt(t, SkipWs(t, k.i + 1)) IN
      IF ~v.ok THEN Fail(v.i)
      ELSE LET b == SkipWs(t, v.i) ps2 == Append(ps, [path |-> k.v, val |-> v.v]) IN
        IF At(t, b) = 44 THEN InlineBody(t, SkipWs(t, b + 1), s, ps2)
        ELSE IF At(t, b) = 125 THEN
          LET r == Inline(ps2, <<s, b + 1>>)
              kr == [j \in 1..Len(ps2) |->
                       [reg |-> <<ps2[j].path[1].sp[1], ps2[j].path[Len(ps2[j].path)].sp[2]>>,
                        names |-> [x \in 1..Len(ps2[j].path) |-> ps2[j].path[x].s],
                        last |-> ps2[j].path[Len(ps2[j].path)].sp]]      \* token of the pair's own (last) key
          IN IF r.ok THEN Ok(b + 1, [r.v EXCEPT !.kr = kr]) ELSE Fail(i)
        ELSE Fail(b)

\* ------------------------------ document ------------------------------
\* statements: [kind |-> "std"|"aot"|"kv", path, val, sp (whole expression without trivia)]
\* result [ok, i, stmts, endnl]; endnl = the last statement line ended without a newline
RECURSIVE DocLoop(_, _, _, _)
DocLoop(t, i, acc, open) ==
  LET a == SkipWs(t, i) c == At(t, a) IN
  IF a > Len(t) THEN [ok |-> TRUE, i |-> a, stmts |-> acc, open |-> open]
  ELSE IF c = 35 \/ NewlineEnd(t, a) # 0 THEN
    LET lt == LineTrail(t, a) IN
    IF lt.ok THEN DocLoop(t, lt.i, acc, FALSE) ELSE [ok |-> FALSE, i |-> lt.i, stmts |-> acc, open |-> FALSE]
  ELSE IF c = 91 THEN
    LET aot == At(t, a + 1) = 91
        k == KeyPath(t, SkipWs(t, IF aot THEN a + 2 ELSE a + 1), <<>>) IN
    IF ~k.ok THEN [ok |-> FALSE, i |-> k.i, stmts |-> acc, open |-> FALSE]
    ELSE IF At(t, k.i) # 93 \/ (aot /\ At(t, k.i + 1) # 93) THEN [ok |-> FALSE, i |-> k.i, stmts |-> acc, open |-> FALSE]
    ELSE LET e == IF aot THEN k.i + 2 ELSE k.i + 1
             lt == LineTrail(t, e) IN
      IF ~lt.ok THEN [ok |-> FALSE, i |-> lt.i, stmts |-> acc, open |-> FALSE]
      ELSE DocLoop(t, lt.i, Append(acc, [kind |-> IF aot THEN "aot" ELSE "std", path |-> k.v, val |-> Dummy, sp |-> <<a, e>>]), ~lt.nl)
  ELSE
    LET k == KeyPath(t, a, <<>>) IN
    IF ~k.ok THEN [ok |-> FALSE, i |-> k.i, stmts |-> acc, open |-> FALSE]
    ELSE IF At(t, k.i) # 61 THEN [ok |-> FALSE, i |-> k.i, stmts |-> acc, open |-> FALSE]
    ELSE LET v == ValueAt(t, SkipWs(t, k.i + 1)) IN
      IF ~v.ok THEN [ok |-> FALSE, i |-> v.i, stmts |-> acc, open |-> FALSE]
      ELSE LET lt == LineTrail(t, v.i) IN
        IF ~lt.ok THEN [ok |-> FALSE, i |-> lt.i, stmts |-> acc, open |-> FALSE]
        ELSE DocLoop(t, lt.i, Append(acc, [kind |-> "kv", path |-> k.v, val |-> v.v, sp |-> <<a, v.i>>]), ~lt.nl)

HasBom(t) == At(t, 1) = 65279
Statements(t) == DocLoop(t, IF HasBom(t) THEN 2 ELSE 1, <<>>, FALSE)

\* ParseDocument(t) = [res |-> "ok"|"rej"|"u1", tree, stmts, open]
\*   res = "rej": the text is not valid TOML 1.0.0 (grammar, ranges, limits L1/L2 or definition rules)
ParseDocument(t) ==
  LET s == Statements(t) IN
  IF ~s.ok THEN [res |-> "rej", tree |-> Dummy, stmts |-> s.stmts, open |-> FALSE, why |-> "syntax", at |-> s.i]
  ELSE LET d == Define(s.stmts) IN
       IF d.res = "rej" THEN [res |-> "rej", tree |-> Dummy, stmts |-> s.stmts, open |-> s.open, why |-> "define", at |-> d.at]
       ELSE [res |-> d.res, tree |-> Tree(d.st), stmts |-> s.stmts, open |-> s.open, why |-> "", at |-> 0]

\* stand-alone entry points (Value::from_str, Key::from_str, key paths, Datetime::from_str)
ParseValue(t) == LET a == SkipWs(t, 1) v == ValueAt(t, a) IN
                 IF v.ok /\ SkipWs(t, v.i) > Len(t) THEN [ok |-> TRUE, v |-> v.v] ELSE [ok |-> FALSE, v |-> Dummy]
ParseKeyPathAll(t) == LET k == KeyPath(t, SkipWs(t, 1), <<>>) IN
                      IF k.ok /\ k.i > Len(t) THEN [ok |-> TRUE, v |-> k.v] ELSE [ok |-> FALSE, v |-> <<>>]
ParseDatetime(t) == LET v == DateTimeAt(t, 1) IN
                    IF (IsDateStart(t, 1) \/ IsTimeStart(t, 1)) /\ v.ok /\ v.i > Len(t) THEN [ok |-> TRUE, v |-> v.v] ELSE [ok |-> FALSE, v |-> Dummy]
=============================================================================
