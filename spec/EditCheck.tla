----------------------------- MODULE EditCheck -----------------------------
(***************************************************************************)
(* C08, verbatim part: which pieces of the source text an edit must leave  *)
(* unchanged, and in which order they must still appear.                   *)
(*                                                                         *)
(* A piece is the text of a statement from its first token to the end of   *)
(* its last line (so including a trailing comment), or a comment line      *)
(* directly above a statement (attached to it).  A statement is touched    *)
(* by an operation iff its position is prefix-related to the operation's   *)
(* TouchedPath (headers: iff the touched path is a prefix of the header).  *)
(***************************************************************************)
EXTENDS TomlPrint, EditDef

\* ---- full position of every statement, with array-of-tables indices ----
CountOf(cnt, names) == IF names \in DOMAIN cnt THEN cnt[names] ELSE 0
RECURSIVE WithIdx(_, _, _, _)
\* insert an index step after every prefix of `names` that is an array of tables (its last element so far)
WithIdx(names, j, cnt, acc) ==
  IF j > Len(names) THEN acc
  ELSE LET pre == SubSeq(names, 1, j)
           acc2 == Append(acc, names[j]) IN
       WithIdx(names, j + 1, cnt, IF pre \in DOMAIN cnt THEN Append(acc2, IdxStep(cnt[pre] - 1)) ELSE acc2)
RECURSIVE StmtPosAcc(_, _, _, _, _)
StmtPosAcc(stmts, j, cnt, sec, acc) ==
  IF j > Len(stmts) THEN acc
  ELSE LET s == stmts[j] names == PathNames(s) IN
       CASE s.kind = "kv" -> StmtPosAcc(stmts, j + 1, cnt, sec, Append(acc, sec \o names))
         [] s.kind = "std" -> LET p == WithIdx(names, 1, cnt, <<>>) IN StmtPosAcc(stmts, j + 1, cnt, p, Append(acc, p))
         [] s.kind = "aot" ->
              LET cnt2 == [q \in (DOMAIN cnt) \cup {names} |-> IF q = names THEN CountOf(cnt, names) + 1 ELSE cnt[q]]
                  \* sub-arrays of tables inside a new element start again
                  cnt3 == [q \in {x \in DOMAIN cnt2 : ~(Len(x) > Len(names) /\ SubSeq(x, 1, Len(names)) = names)} |-> cnt2[q]]
                  p == WithIdx(names, 1, cnt3, <<>>)
              IN StmtPosAcc(stmts, j + 1, cnt3, p, Append(acc, p))
StmtPos(stmts) == StmtPosAcc(stmts, 1, <<>>, <<>>, <<>>)

StmtTouched(s, pos, o) ==
  LET tp == TouchedPath(o) IN
  \* sorting reorders whole statements of a standard table, but rewrites the one statement that spells an inline table
  IF o.op = "sort_values" THEN s.kind = "kv" /\ IsPrefixPath(pos, o.path)
  ELSE IF s.kind = "kv" THEN IsPrefixPath(tp, pos) \/ IsPrefixPath(pos, tp)
  ELSE IsPrefixPath(tp, pos)

\* ---- order after sort_values (on the parsed trees, which know how each table was defined) ----
\* Table::sort_values / InlineTable::sort_values sort "the syntactic table": the pairs spelled under the header
\* (or between the braces), dotted-key tables included and sorted in turn; tables with a header of their own,
\* arrays of tables, and every container that is merely a value of the sorted table keep their order.
HdrDefined(v) == \/ v.k = "t" /\ v.def \in {"header", "implicit", "elem", "root"}
                 \/ v.k = "a" /\ v.v # <<>> /\ v.v[1].k = "t" /\ v.v[1].def = "elem"
EKeysOf(es) == [x \in 1..Len(es) |-> es[x].key]
BodyKeys(es) == EKeysOf(SelectSeq(es, LAMBDA e : ~HdrDefined(e.val)))
HdrKeys(es) == EKeysOf(SelectSeq(es, LAMBDA e : HdrDefined(e.val)))
Ascending(ks) == \A x \in 1..(Len(ks) - 1) : KeyLess(ks[x], ks[x + 1])
\* mode "to": on the way to the sorted table (rest = remaining path); "in": sorted; "out": must keep its order
RECURSIVE SortOrd(_, _, _, _, _)
\* loose: the document holds tables created through the API; they have no position of their own and follow
\* whichever table the sorted map now visits before them, so the order of headers is not pinned
SortOrd(b, a, rest, mode0, loose) ==
  LET mode == IF mode0 = "to" /\ rest = <<>> THEN "in" ELSE mode0 IN
  IF b.k # a.k THEN TRUE
  ELSE CASE b.k = "t" ->
              /\ IF mode = "in" THEN Ascending(BodyKeys(a.v)) /\ (loose \/ HdrKeys(a.v) = HdrKeys(b.v))
                 \* a dotted-key table under the sorted one: the documentation says "not recursive", the code sorts
                 \* Item::Table children that are dotted and leaves dotted inline tables alone: either is accepted
                 ELSE IF mode = "dot" THEN Ascending(BodyKeys(a.v)) \/ EKeysOf(a.v) = EKeysOf(b.v)
                 ELSE IF loose THEN BodyKeys(a.v) = BodyKeys(b.v)
                 ELSE EKeysOf(a.v) = EKeysOf(b.v)
              /\ \A x \in 1..Len(b.v) :
                   LET y == KeyPos(a.v, b.v[x].key) IN
                   y # 0 => SortOrd(b.v[x].val, a.v[y].val,
                                    IF mode = "to" /\ b.v[x].key = Head(rest) THEN Tail(rest) ELSE <<>>,
                                    IF mode = "to" THEN (IF b.v[x].key = Head(rest) THEN "to" ELSE "out")
                                    ELSE IF mode \in {"in", "dot"} /\ b.v[x].val.k = "t" /\ b.v[x].val.def = "dotted" THEN "dot" ELSE "out", loose)
         [] b.k = "a" ->
              /\ Len(a.v) = Len(b.v)
              /\ \A x \in 1..Len(b.v) :
                   LET here == mode = "to" /\ IsIdx(Head(rest)) /\ Head(rest)[2] + 1 = x IN
                   SortOrd(b.v[x], a.v[x], IF here THEN Tail(rest) ELSE <<>>, IF here THEN "to" ELSE "out", loose)
         [] OTHER -> TRUE

\* survivors keep their relative order, on the parsed trees.  loose: tables without a position follow whichever
\* table is printed before them, so only the pairs spelled in the body of each table are pinned
RECURSIVE SurvivorsOrderedL(_, _, _)
SurvivorsOrderedL(before, after, loose) ==
  IF before.k # after.k THEN TRUE
  ELSE CASE before.k = "t" ->
              LET both == {before.v[x].key : x \in 1..Len(before.v)} \cap {after.v[x].key : x \in 1..Len(after.v)}
                  hb(k) == HdrDefined(before.v[KeyPos(before.v, k)].val)
                  ha(k) == HdrDefined(after.v[KeyPos(after.v, k)].val)
                  \* an entry that changes between "pair in the body" and "table with a header" has to move
                  \* (pairs precede headers); with position-less tables around only body pairs are pinned
                  common == {k \in both : hb(k) = ha(k) /\ (~loose \/ ~hb(k))}
                  kb == SelectSeq(EKeysOf(before.v), LAMBDA k : k \in common)
                  ka == SelectSeq(EKeysOf(after.v), LAMBDA k : k \in common)
              IN /\ kb = ka
                 /\ \A x \in 1..Len(before.v) : before.v[x].key \in both =>
                      SurvivorsOrderedL(before.v[x].val, after.v[KeyPos(after.v, before.v[x].key)].val, loose)
         \* elements are paired by index only when no element was added or removed
         [] before.k = "a" -> Len(before.v) = Len(after.v) => \A x \in 1..Len(before.v) : SurvivorsOrderedL(before.v[x], after.v[x], loose)
         [] OTHER -> TRUE

\* ---- pieces ----
RECURSIVE LineEnd(_, _)
LineEnd(t, i) == IF i > Len(t) \/ t[i] = 10 THEN i ELSE LineEnd(t, i + 1)      \* position of the LF ending the line (or Len+1)
StripCr(x) == IF x # <<>> /\ x[Len(x)] = 13 THEN SubSeq(x, 1, Len(x) - 1) ELSE x
RECURSIVE StripWsEnd(_)
StripWsEnd(x) == IF x # <<>> /\ x[Len(x)] \in {32, 9} THEN StripWsEnd(SubSeq(x, 1, Len(x) - 1)) ELSE x


\* the comment lines directly above position `from` (no blank line in between), going back no further than `lo`
RECURSIVE LineStart(_, _)
LineStart(t, i) == IF i <= 1 \/ t[i - 1] = 10 THEN i ELSE LineStart(t, i - 1)
\* from the start of the statement's first line (its indentation) to the end of its last line (trailing comment)
StmtPiece(t, s) == StripWsEnd(StripCr(SubSeq(t, LineStart(t, s.sp[1]), LineEnd(t, s.sp[2]) - 1)))
RECURSIVE AttachedAbove(_, _, _, _)
AttachedAbove(t, lineStart, lo, acc) ==
  IF lineStart <= lo \/ lineStart <= 1 THEN acc
  ELSE LET ps == LineStart(t, lineStart - 1)            \* start of the previous line
           body == StripCr(SubSeq(t, ps, lineStart - 2))
           a == SkipWs(body, 1) IN
       IF ps >= lo /\ a <= Len(body) /\ body[a] = 35 THEN AttachedAbove(t, ps, lo, <<StripWsEnd(SubSeq(body, a, Len(body)))>> \o acc)
       ELSE acc

RECURSIVE PiecesAcc(_, _, _, _, _, _, _, _)
\* acc = sequence of groups; a group = the pieces of one section (the comments attached above its header, the
\* header line, the lines of its pairs); the first group is the root section.
\* hv = position of a table whose header line may disappear (see Validate.EditSteps), or a path that matches nothing
PiecesAcc(t, stmts, pos, o, j, lo, acc, hv) ==
  IF j > Len(stmts) THEN acc
  ELSE LET s == stmts[j]
           nextLo == LineEnd(t, s.sp[2]) + 1
           acc1 == IF s.kind = "kv" THEN acc ELSE Append(acc, <<>>)
           n == Len(acc1)
       IN IF StmtTouched(s, pos[j], o) \/ (s.kind # "kv" /\ pos[j] = hv) THEN PiecesAcc(t, stmts, pos, o, j + 1, nextLo, acc1, hv)
          ELSE PiecesAcc(t, stmts, pos, o, j + 1, nextLo,
                         [acc1 EXCEPT ![n] = acc1[n] \o AttachedAbove(t, LineStart(t, s.sp[1]), lo, <<>>) \o <<StmtPiece(t, s)>>], hv)
\* the pieces of text `t` (parsed as p) that operation o must leave verbatim, in source order, grouped by section
NoPath == <<<<0 - 9>>>>
PieceGroupsH(t, p, o, hv) == PiecesAcc(t, p.stmts, StmtPos(p.stmts), o, 1, 1, <<<<>>>>, hv)
PieceGroups(t, p, o) == PieceGroupsH(t, p, o, NoPath)
\* the text in front of the pair that defines position `at` (from the end of the previous statement's line): what the
\* parser stores as the prefix of that key
RECURSIVE KvPrefix(_, _, _, _, _, _)
KvPrefix(t, stmts, pos, at, j, lo) ==
  IF j > Len(stmts) THEN <<>>
  ELSE IF stmts[j].kind = "kv" /\ pos[j] = at THEN SubSeq(t, lo, stmts[j].sp[1] - 1)
  ELSE KvPrefix(t, stmts, pos, at, j + 1, LineEnd(t, stmts[j].sp[2]) + 1)
KeyPrefixOf(t, p, at) == KvPrefix(t, p.stmts, StmtPos(p.stmts), at, 1, 1)
RECURSIVE FlattenG(_)
FlattenG(gs) == IF gs = <<>> THEN <<>> ELSE Head(gs) \o FlattenG(Tail(gs))
Pieces(t, p, o) == FlattenG(PieceGroups(t, p, o))

\* ---- occurrence in order ----
MatchAt(t, pat, i) == i + Len(pat) - 1 <= Len(t) /\ SubSeq(t, i, i + Len(pat) - 1) = pat
RECURSIVE FindFrom(_, _, _)
FindFrom(t, pat, i) == IF i + Len(pat) - 1 > Len(t) THEN 0 ELSE IF MatchAt(t, pat, i) THEN i ELSE FindFrom(t, pat, i + 1)
\* index of the first piece that does not occur (in order when ordered), 0 if all do
RECURSIVE FirstMissing(_, _, _, _, _)
FirstMissing(t, pieces, j, from, ordered) ==
  IF j > Len(pieces) THEN 0
  ELSE LET at == FindFrom(t, pieces[j], IF ordered THEN from ELSE 1) IN
       IF at = 0 THEN j ELSE FirstMissing(t, pieces, j + 1, at + Len(pieces[j]), ordered)
\* sections may move as wholes (tables created through the API have no position): each group in order on its own
RECURSIVE FirstMissingG(_, _, _)
FirstMissingG(t, groups, g) ==
  IF g > Len(groups) THEN <<0, 0>>
  ELSE LET m == FirstMissing(t, groups[g], 1, 1, TRUE) IN
       IF m # 0 THEN <<g, m>> ELSE FirstMissingG(t, groups, g + 1)
=============================================================================
