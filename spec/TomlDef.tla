------------------------------ MODULE TomlDef ------------------------------
(***************************************************************************)
(* Abstract TOML values and the statement-level definition rules of TOML   *)
(* 1.0.0 (sections Keys, Table, Inline Table, Array of Tables) as pure     *)
(* operators over a definition state.  TomlDoc.tla wraps them into a state *)
(* machine; TomlLex.tla uses them for inline tables and documents.         *)
(*                                                                         *)
(* Values (every variant is a record tagged by k, see DESIGN.md 3.2):      *)
(*   [k |-> "s", v |-> <<code points>>]                                    *)
(*   [k |-> "i", neg |-> BOOLEAN, d |-> <<decimal digits, no leading 0>>]  *)
(*   [k |-> "f", c |-> "nan"|"inf"|"zero"|"fin", neg, d, e]                *)
(*        value = d1.d2..dn * 10^e, d stripped of leading/trailing zeros   *)
(*   [k |-> "b", v |-> BOOLEAN]                                            *)
(*   [k |-> "dt", date |-> <<y,m,d>>|<<>>, time |-> <<h,mi,s,ns>>|<<>>,    *)
(*        off |-> [t |-> "N"|"Z"|"O", m |-> minutes]]                      *)
(*   [k |-> "a", v |-> <<values>>]                                         *)
(*   [k |-> "t", v |-> <<[key, val, prom, ksp]...>>, kr]   ordered         *)
(*        kr = key-path regions of the pairs of an inline table            *)
(* Every value additionally carries sp |-> <<from, to>> (code point        *)
(* positions, to exclusive; <<0,0>> = no span).                            *)
(***************************************************************************)
EXTENDS Naturals, Integers, Sequences, FiniteSets, TLC

NoSpan == <<0, 0>>
VS(cps, sp) == [k |-> "s", v |-> cps, sp |-> sp]
VI(neg, d, sp) == [k |-> "i", neg |-> neg, d |-> d, sp |-> sp]
VF(c, neg, d, e, sp) == [k |-> "f", c |-> c, neg |-> neg, d |-> d, e |-> e, sp |-> sp]
VB(b, sp) == [k |-> "b", v |-> b, sp |-> sp]
VDT(date, time, off, sp) == [k |-> "dt", date |-> date, time |-> time, off |-> off, sp |-> sp]
VA(vs, sp) == [k |-> "a", v |-> vs, sp |-> sp]
VT(es, sp) == [k |-> "t", v |-> es, sp |-> sp, kr |-> <<>>, def |-> "inline"]
Entry(key, val, prom, ksp) == [key |-> key, val |-> val, prom |-> prom, ksp |-> ksp]

AllButLast(s) == SubSeq(s, 1, Len(s) - 1)
LastEl(s) == s[Len(s)]

(***************************************************************************)
(* Definition state: ns maps a node path to a node.  A path is a sequence  *)
(* of steps <<"k", key>> (member of a table) and <<"n", index>> (element   *)
(* of an array of tables).  Nodes:                                         *)
(*   kind "tbl": def in {"root","header","implicit","dotted","elem"},      *)
(*               ch = child keys in creation order                         *)
(*   kind "aot": n = number of elements                                    *)
(*   kind "val": val = the (closed) value                                  *)
(* prom = the table was first created implicitly by a longer header and    *)
(* later defined by its own header (its position among siblings is not     *)
(* pinned, DESIGN.md 3.5).  ksp = span of the key token that created it.   *)
(***************************************************************************)
Node(kind, def, val, ksp) == [k |-> kind, def |-> def, n |-> 0, ch |-> <<>>, prom |-> FALSE, val |-> val, ksp |-> ksp]
Dummy == [k |-> "b", v |-> FALSE, sp |-> NoSpan]
TblNode(def, ksp) == Node("tbl", def, Dummy, ksp)
AotNode(ksp) == Node("aot", "x", Dummy, ksp)
ValNode(v, ksp) == Node("val", "x", v, ksp)

Has(ns, p) == p \in DOMAIN ns
Put(ns, p, v) == [q \in (DOMAIN ns) \cup {p} |-> IF q = p THEN v ELSE ns[q]]
KStep(key) == <<"k", key>>
NStep(n) == <<"n", n>>

\* add a new child `key` under table node `at`
AddChild(ns, at, key, node) ==
  LET p == Append(at, KStep(key))
      par == ns[at]
  IN Put(Put(ns, p, node), at, [par EXCEPT !.ch = Append(par.ch, key)])

EmptyDoc == (<<>> :> TblNode("root", NoSpan))
InitState == [ns |-> EmptyDoc, cur |-> <<>>]

\* A key path element: [s |-> cps, sp |-> span]
\* ---- header walk over the super-tables of a header path (all but last) ----
RECURSIVE HWalk(_, _, _)
HWalk(ns, at, ks) ==
  IF ks = <<>> THEN [ok |-> TRUE, ns |-> ns, at |-> at]
  ELSE LET p == Append(at, KStep(Head(ks).s)) IN
    IF ~Has(ns, p) THEN HWalk(AddChild(ns, at, Head(ks).s, TblNode("implicit", Head(ks).sp)), p, Tail(ks))
    ELSE CASE ns[p].k = "val" -> [ok |-> FALSE, ns |-> ns, at |-> at]
           [] ns[p].k = "tbl" -> HWalk(ns, p, Tail(ks))
           [] ns[p].k = "aot" -> HWalk(ns, Append(p, NStep(ns[p].n)), Tail(ks))

Rej(st) == [res |-> "rej", ns |-> st.ns, cur |-> st.cur]

\* [a.b.c]
StdHeader(st, ks) ==
  LET w == HWalk(st.ns, <<>>, AllButLast(ks)) IN
  IF ~w.ok THEN Rej(st)
  ELSE LET key == LastEl(ks)
           p == Append(w.at, KStep(key.s)) IN
    IF ~Has(w.ns, p)
    THEN [res |-> "ok", ns |-> AddChild(w.ns, w.at, key.s, TblNode("header", key.sp)), cur |-> p]
    ELSE IF w.ns[p].k = "tbl" /\ w.ns[p].def = "implicit"
    \* (the header's own key replaces the one that created the table implicitly: ksp follows it)
    THEN [res |-> "ok", ns |-> Put(w.ns, p, [w.ns[p] EXCEPT !.def = "header", !.prom = TRUE, !.ksp = key.sp]), cur |-> p]
    ELSE Rej(st)

\* [[a.b.c]]
AotHeader(st, ks) ==
  LET w == HWalk(st.ns, <<>>, AllButLast(ks)) IN
  IF ~w.ok THEN Rej(st)
  ELSE LET key == LastEl(ks)
           p == Append(w.at, KStep(key.s)) IN
    IF ~Has(w.ns, p) THEN
      LET e == Append(p, NStep(1))
          ns1 == AddChild(w.ns, w.at, key.s, [AotNode(key.sp) EXCEPT !.n = 1])
      IN [res |-> "ok", ns |-> Put(ns1, e, TblNode("elem", key.sp)), cur |-> e]
    ELSE IF w.ns[p].k = "aot" THEN
      LET m == w.ns[p].n + 1
          e == Append(p, NStep(m))
      IN [res |-> "ok", ns |-> Put(Put(w.ns, p, [w.ns[p] EXCEPT !.n = m]), e, TblNode("elem", key.sp)), cur |-> e]
    ELSE Rej(st)

\* dotted-key walk relative to `at`; perm = permissive reading of class U1
RECURSIVE DWalk(_, _, _, _)
DWalk(ns, at, ks, perm) ==
  IF ks = <<>> THEN [ok |-> TRUE, ns |-> ns, at |-> at]
  ELSE LET p == Append(at, KStep(Head(ks).s)) IN
    IF ~Has(ns, p) THEN DWalk(AddChild(ns, at, Head(ks).s, TblNode("dotted", Head(ks).sp)), p, Tail(ks), perm)
    ELSE CASE ns[p].k = "tbl" /\ ns[p].def = "dotted" -> DWalk(ns, p, Tail(ks), perm)
           [] ns[p].k = "tbl" /\ ns[p].def = "implicit" /\ perm -> DWalk(ns, p, Tail(ks), perm)
           [] OTHER -> [ok |-> FALSE, ns |-> ns, at |-> at]

KeyValP(st, ks, v, perm) ==
  LET w == DWalk(st.ns, st.cur, AllButLast(ks), perm) IN
  IF ~w.ok THEN Rej(st)
  ELSE LET key == LastEl(ks)
           p == Append(w.at, KStep(key.s)) IN
    IF Has(w.ns, p) THEN Rej(st)
    ELSE [res |-> "ok", ns |-> AddChild(w.ns, w.at, key.s, ValNode(v, key.sp)), cur |-> st.cur]

\* k1.k2.k3 = v  -- result "ok" | "rej" | "u1" (accepted only under the permissive reading)
KeyVal(st, ks, v) ==
  LET s == KeyValP(st, ks, v, FALSE) IN
  IF s.res = "ok" THEN s
  ELSE LET q == KeyValP(st, ks, v, TRUE) IN
       IF q.res = "ok" THEN [q EXCEPT !.res = "u1"] ELSE s

\* ---- canonical ordered tree of a definition state ----
RECURSIVE TreeAt(_, _), TblEntries(_, _, _, _), AotElems(_, _, _, _)
TreeAt(ns, p) ==
  LET nd == ns[p] IN
  CASE nd.k = "val" -> nd.val
    [] nd.k = "tbl" -> [VT(TblEntries(ns, p, nd.ch, <<>>), NoSpan) EXCEPT !.def = nd.def]
    [] nd.k = "aot" -> VA(AotElems(ns, p, 1, <<>>), NoSpan)
TblEntries(ns, p, ch, acc) ==
  IF ch = <<>> THEN acc
  ELSE LET q == Append(p, KStep(Head(ch))) IN
       TblEntries(ns, p, Tail(ch), Append(acc, Entry(Head(ch), TreeAt(ns, q), ns[q].prom, ns[q].ksp)))
AotElems(ns, p, i, acc) ==
  IF i > ns[p].n THEN acc
  ELSE AotElems(ns, p, i + 1, Append(acc, TreeAt(ns, Append(p, NStep(i)))))

Tree(st) == TreeAt(st.ns, <<>>)

\* ---- inline table: a closed world with the same rules ----
\* pairs = <<[path |-> key path, val |-> value]...>>; result [ok, v]
RECURSIVE InlineFold(_, _)
InlineFold(st, pairs) ==
  IF pairs = <<>> THEN [ok |-> TRUE, st |-> st]
  ELSE LET r == KeyValP(st, Head(pairs).path, Head(pairs).val, FALSE) IN
       IF r.res = "ok" THEN InlineFold([ns |-> r.ns, cur |-> r.cur], Tail(pairs)) ELSE [ok |-> FALSE, st |-> st]

Inline(pairs, sp) ==
  LET r == InlineFold(InitState, pairs) IN
  IF r.ok THEN [ok |-> TRUE, v |-> [Tree(r.st) EXCEPT !.sp = sp, !.def = "inline"]] ELSE [ok |-> FALSE, v |-> Dummy]

\* ---- a statement: [kind |-> "std"|"aot"|"kv", path, val] ----
Apply(st, s) ==
  CASE s.kind = "std" -> StdHeader(st, s.path)
    [] s.kind = "aot" -> AotHeader(st, s.path)
    [] s.kind = "kv" -> KeyVal(st, s.path, s.val)

\* fold statements; verdict "ok" | "rej" | "u1"; at = index of the rejected statement (0 if none)
RECURSIVE DefineAcc(_, _, _, _)
DefineAcc(st, stmts, i, u) ==
  IF i > Len(stmts) THEN [res |-> IF u THEN "u1" ELSE "ok", st |-> st, at |-> 0]
  ELSE LET r == Apply(st, stmts[i]) IN
       IF r.res = "rej" THEN [res |-> "rej", st |-> st, at |-> i]
       ELSE DefineAcc([ns |-> r.ns, cur |-> r.cur], stmts, i + 1, u \/ r.res = "u1")
Define(stmts) == DefineAcc(InitState, stmts, 1, FALSE)

\* ---- values without spans / creation flags (for comparing two derivations of one tree) ----
RECURSIVE Plain(_), PlainSeq(_), PlainEntries(_)
Plain(v) ==
  CASE v.k = "a" -> [k |-> "a", v |-> PlainSeq(v.v)]
    [] v.k = "t" -> [k |-> "t", v |-> PlainEntries(v.v)]
    [] v.k = "s" -> [k |-> "s", v |-> v.v]
    [] v.k = "i" -> [k |-> "i", neg |-> v.neg, d |-> v.d]
    [] v.k = "f" -> [k |-> "f", c |-> v.c, neg |-> v.neg, d |-> v.d, e |-> v.e]
    [] v.k = "b" -> [k |-> "b", v |-> v.v]
    [] v.k = "dt" -> [k |-> "dt", date |-> v.date, time |-> v.time, off |-> v.off]
PlainSeq(vs) == IF vs = <<>> THEN <<>> ELSE <<Plain(Head(vs))>> \o PlainSeq(Tail(vs))
PlainEntries(es) == IF es = <<>> THEN <<>> ELSE <<[key |-> Head(es).key, val |-> Plain(Head(es).val)]>> \o PlainEntries(Tail(es))
=============================================================================
