----------------------------- MODULE MCTomlDoc -----------------------------
(* TLC model of TomlDoc: statement alphabet over a two-letter key alphabet, *)
(* emission of one rendered text per behaviour (direction G), and the      *)
(* cross-check of the generator against the recogniser.                    *)
EXTENDS TomlDoc, TomlLex, TomlGen, Json

CONSTANTS MaxPath, EMIT, RICH,
          INLINE,   \* statements are the pairs of one inline table `t = { ... }` (closed world, key/values only)
          NARROW,   \* deep-narrow alphabet: chain headers a, a.a, a.a.a, a.b and keys a, b, c, b.a (longer sequences)
          UNIFORM   \* spell every key bare and every dot without spaces (repeated segments identical)

KA == <<97>>
KB == <<98>>
Keys == {KA, KB}
Paths == UNION {[1..k -> Keys] : k \in 1..MaxPath}
KP(p) == [j \in 1..Len(p) |-> [s |-> p[j], sp |-> NoSpan]]
One == VI(FALSE, <<1>>, NoSpan)
E1(k, v) == Entry(k, v, FALSE, NoSpan)
Vals == {One} \cup (IF RICH >= 1 THEN {VA(<<>>, NoSpan), VT(<<>>, NoSpan)} ELSE {})
        \cup (IF RICH >= 2 THEN {VA(<<One>>, NoSpan),
                            VT(<<E1(KA, One)>>, NoSpan),
                            VT(<<E1(KA, VT(<<E1(KB, One), E1(KA, One)>>, NoSpan))>>, NoSpan)}
              ELSE {})
        \* static arrays of inline tables (not arrays of tables: a later [[header]] must be refused)
        \cup (IF RICH >= 3 THEN {VA(<<VT(<<>>, NoSpan)>>, NoSpan), VA(<<VT(<<E1(KB, One)>>, NoSpan)>>, NoSpan)} ELSE {})
KC == <<99>>
WideStmts == {[kind |-> kd, path |-> KP(p), val |-> Dummy] : kd \in {"std", "aot"}, p \in Paths}
             \cup {[kind |-> "kv", path |-> KP(p), val |-> v] : p \in Paths, v \in Vals}
NarrowStmts == {[kind |-> kd, path |-> KP(p), val |-> Dummy] : kd \in {"std", "aot"}, p \in {<<KA>>, <<KA, KA>>, <<KA, KA, KA>>, <<KA, KB>>}}
               \cup {[kind |-> "kv", path |-> KP(p), val |-> One] : p \in {<<KA>>, <<KB>>, <<KC>>, <<KB, KA>>}}
\* second deep-narrow alphabet: arrays of tables re-entered through their parent
Narrow2Stmts == {[kind |-> kd, path |-> KP(p), val |-> Dummy] : kd \in {"std", "aot"}, p \in {<<KA>>, <<KA, KB>>}}
                \cup {[kind |-> "kv", path |-> KP(p), val |-> One] : p \in {<<KA>>, <<KA, KA>>, <<KB, KA>>, <<KB, KA, KB>>}}
InlineStmts == {[kind |-> "kv", path |-> KP(p), val |-> v] : p \in Paths, v \in Vals}
MCStmts == IF INLINE THEN InlineStmts ELSE IF NARROW = 1 THEN NarrowStmts ELSE IF NARROW = 2 THEN Narrow2Stmts ELSE WideStmts

\* spelling choices are a function of the position so that every spelling meets every context
Style(i, j) == IF UNIFORM THEN 0 ELSE (i + j) % 3
PlainPath(s) == [j \in 1..Len(s.path) |-> s.path[j].s]
StmtText(s, i) ==
  LET dot == IF i % 2 = 0 /\ ~UNIFORM THEN <<32, 46, 32>> ELSE <<46>>
      pt == PathText(PlainPath(s), [j \in 1..Len(s.path) |-> Style(i, j)], dot, 1)
      \* every third header with blanks inside its brackets (they end up in the leaf decor of its last key)
      pad == IF ~UNIFORM /\ i % 3 = 1 THEN <<32>> ELSE <<>>
  IN CASE s.kind = "std" -> <<91>> \o pad \o pt \o pad \o <<93>>
       [] s.kind = "aot" -> <<91, 91>> \o pad \o pt \o pad \o <<93, 93>>
       [] s.kind = "kv" -> pt \o <<32, 61, 32>> \o ValueTextD(s.val)
RECURSIVE DocText(_, _)
DocText(h, i) == IF i > Len(h) THEN <<>> ELSE StmtText(h[i], i) \o <<10>> \o DocText(h, i + 1)
RECURSIVE PairsT(_, _)
PairsT(h, i) == IF i > Len(h) THEN <<>>
                ELSE StmtText(h[i], i) \o (IF i < Len(h) THEN <<44, 32>> ELSE <<>>) \o PairsT(h, i + 1)
RenderDoc(h) == IF INLINE THEN <<116, 32, 61, 32, 123>> \o PairsT(h, 1) \o <<125, 10>> ELSE DocText(h, 1)

\* direction G: one case per behaviour
Emit == EMIT => PrintT(ToJson([text |-> RenderDoc(hist), n |-> Len(hist), res |-> res]))

\* generator and recogniser are two formulations of one language
GenLexAgree ==
  LET p == ParseDocument(RenderDoc(hist)) IN
  /\ p.res = res
  /\ res # "rej" => Plain(p.tree) = (IF INLINE THEN [k |-> "t", v |-> <<[key |-> <<116>>, val |-> Plain(Tree(st))]>>] ELSE Plain(Tree(st)))

\* non-vacuity: each combination C09 lists as permitted is reachable (negations fail when enabled)
HasPromoted == \E p \in DOMAIN st.ns : st.ns[p].prom
HasHeaderUnderDotted == \E p \in DOMAIN st.ns : p # <<>> /\ st.ns[p].def = "header" /\ st.ns[AllButLast(p)].def = "dotted"
HasAotNested == \E p \in DOMAIN st.ns : st.ns[p].k = "aot" /\ st.ns[p].n >= 2
=============================================================================
