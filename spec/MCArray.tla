------------------------------- MODULE MCArray -------------------------------
(* Every history of <= MaxN edits on every start array: what ArrayImpl prints *)
(* is an array of the grammar with the expected elements, and the comments    *)
(* next to surviving elements survive.                                        *)
EXTENDS ArrayImpl, TLC

CONSTANT MaxN

S(str) == str
\* start arrays as source text (code points): [], [ # c LF ], [1], [1,], [1, 2], [ 1 , 2 ], a multi-line array with
\* a comment after every element and a trailing comma, one without trailing comma, a comment before the first element
Starts == { <<91, 93>>,
            <<91, 32, 35, 99, 10, 93>>,
            <<91, 49, 93>>,
            <<91, 49, 44, 93>>,
            <<91, 49, 44, 32, 50, 93>>,
            <<91, 32, 49, 32, 44, 32, 50, 32, 93>>,
            <<91, 10, 32, 32, 49, 44, 32, 35, 97, 10, 32, 32, 50, 44, 32, 35, 98, 10, 93>>,
            <<91, 10, 32, 32, 49, 44, 32, 35, 97, 10, 32, 32, 50, 32, 35, 98, 10, 93>>,
            <<91, 32, 35, 122, 10, 32, 49, 32, 35, 97, 10, 44, 32, 50, 93>> }
Nine == <<57>>
Ops(a) == {[op |-> "array_push", i |-> 0, txt |-> Nine], [op |-> "array_fmt", i |-> 0, txt |-> Nine]}
          \cup {[op |-> "array_insert", i |-> i, txt |-> Nine] : i \in 0..Len(a.es)}
          \cup {[op |-> o, i |-> i, txt |-> Nine] : o \in {"array_replace", "array_remove"}, i \in 0..(Len(a.es) - 1)}

VARIABLES arr, n
Init == n = 0 /\ \E t \in Starts : LET v == ValueAt(t, 1) IN v.ok /\ arr = FromText(t, v.v)
Next == n < MaxN /\ n' = n + 1 /\ \E o \in Ops(arr) : ArrEnabled(arr, o) /\ arr' = ArrApply(arr, o)
Spec == Init /\ [][Next]_<<arr, n>>

\* the printed text is one array value of the grammar, holding exactly the elements of the state, in order
ElemVal(txt) == LET v == ValueAt(txt, 1) IN IF v.ok /\ v.i = Len(txt) + 1 THEN Plain(v.v) ELSE [k |-> "bad"]
PrintsAnArray ==
  LET t == ArrPrint(arr) v == ValueAt(t, 1) IN
  /\ v.ok /\ v.i = Len(t) + 1 /\ v.v.k = "a"
  /\ Len(v.v.v) = Len(arr.es)
  /\ \A x \in 1..Len(arr.es) : Plain(v.v.v[x]) = ElemVal(arr.es[x].txt)
\* re-reading what was printed gives the same state back (the model of the printer and of the parser agree)
ReadBack ==
  LET t == ArrPrint(arr) v == ValueAt(t, 1) IN
  v.ok => LET b == FromText(t, v.v) IN ArrPrint(b) = t /\ Len(b.es) = Len(arr.es)
\* a start array reads back as itself
StartsReadBack == n = 0 => \E t \in Starts : ArrPrint(arr) = t
=============================================================================
