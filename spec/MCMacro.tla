------------------------------- MODULE MCMacro -------------------------------
(* Value-shape documents for C19 in spellings that Rust can tokenise: the     *)
(* canonical text of TomlGen for integers within i32, floats, booleans,       *)
(* inf / nan with signs, all four date-time kinds, simple strings, arrays and  *)
(* inline tables, under bare, dotted and quoted keys and table headers.        *)
EXTENDS TomlLex, TomlGen, Json

Ig(neg, d) == VI(neg, d, NoSpan)
Fl(c, neg, d, e) == VF(c, neg, d, e, NoSpan)
Off(t, m) == [t |-> t, m |-> m]
Dt(date, time, off) == VDT(date, time, off, NoSpan)
Sv(s) == [k |-> "s", v |-> s, sp |-> NoSpan]
Vals ==
  {Ig(FALSE, <<0>>), Ig(FALSE, <<1>>), Ig(TRUE, <<1>>), Ig(FALSE, <<4, 2>>), Ig(FALSE, <<2,1,4,7,4,8,3,6,4,7>>), Ig(TRUE, <<2,1,4,7,4,8,3,6,4,7>>)}
  \cup {Fl("zero", n, <<>>, 0) : n \in BOOLEAN} \cup {Fl("inf", n, <<>>, 0) : n \in BOOLEAN} \cup {Fl("nan", n, <<>>, 0) : n \in BOOLEAN}
  \cup {Fl("fin", n, d, e) : n \in BOOLEAN, d \in {<<1, 5>>, <<3, 1, 4>>, <<1>>}, e \in {0, 2, 22, 0 - 3, 0 - 34}}
  \cup {VB(b, NoSpan) : b \in BOOLEAN}
  \cup {Dt(<<1979, 5, 27>>, t, o) : t \in {<<7, 32, 0, 0>>, <<0, 32, 0, 500000000>>, <<23, 59, 60, 0>>}, o \in {Off("N", 0), Off("Z", 0), Off("O", 0 - 420), Off("O", 0 - 330)}}   \* the macro has no rule for a "+" offset
  \cup {Dt(<<1979, 5, 27>>, <<>>, Off("N", 0)), Dt(<<2024, 2, 29>>, <<>>, Off("N", 0)), Dt(<<>>, <<7, 32, 0, 0>>, Off("N", 0)), Dt(<<>>, <<0, 0, 0, 999999000>>, Off("N", 0))}
  \cup {Sv(<<>>), Sv(<<97>>), Sv(<<97, 32, 98>>), Sv(<<34>>), Sv(<<92>>), Sv(<<10>>), Sv(<<9, 35, 39>>), Sv(<<116, 114, 117, 101>>), Sv(<<49, 57, 55, 57>>)}
K == <<107>>
Templates(x) ==
  {K \o <<32, 61, 32>> \o x \o <<10>>,
   <<91, 116, 93, 10>> \o K \o <<32, 61, 32>> \o x \o <<10>>,
   <<91, 116, 46, 117, 93, 10>> \o K \o <<32, 61, 32>> \o x \o <<10, 91, 116, 93, 10, 106, 32, 61, 32>> \o x \o <<10>>,
   <<91, 91, 116, 93, 93, 10>> \o K \o <<32, 61, 32>> \o x \o <<10, 91, 91, 116, 93, 93, 10>> \o K \o <<32, 61, 32>> \o x \o <<10>>,
   K \o <<32, 61, 32, 91>> \o x \o <<44, 32>> \o x \o <<93, 10>>,
   K \o <<32, 61, 32, 91, 91>> \o x \o <<93, 44, 32, 91, 93, 44, 32, 123, 32, 113, 32, 61, 32>> \o x \o <<32, 125, 93, 10>>,
   K \o <<32, 61, 32, 123, 32, 113, 32, 61, 32>> \o x \o <<44, 32, 114, 46, 115, 32, 61, 32>> \o x \o <<32, 125, 10>>,
   <<97, 46, 98, 32, 61, 32>> \o x \o <<10, 97, 46, 99, 32, 61, 32>> \o x \o <<10>>,
   <<34, 97, 32, 98, 34, 32, 61, 32>> \o x \o <<10, 34, 97, 32, 98, 50, 34, 46, 99, 32, 61, 32>> \o x \o <<10>>,
   \* quoted keys that begin with dashes (the macro joins key segments with dashes internally)
   <<34, 45, 120, 34, 32, 61, 32>> \o x \o <<10, 120, 32, 61, 32>> \o x \o <<10, 91, 116, 46, 34, 45, 45, 118, 34, 93, 10, 107, 32, 61, 32>> \o x \o <<10, 91, 91, 34, 45, 34, 93, 93, 10, 107, 32, 61, 32>> \o x \o <<10>>}
\* every date-time spelling the macro has rules for: "T", "t" or a space, "Z" or "z", fractions (no "+" offsets)
\* numbers: also with an explicit "+" (a separate Rust token, with macro rules of its own in every position)
MacroSpellings(v) == IF v.k = "dt" THEN DatetimeSpellings(v)
                     ELSE IF v.k \in {"i", "f"} /\ ~v.neg THEN {ValueText(v), <<43>> \o ValueText(v)}
                     ELSE {ValueText(v)}
VARIABLES lvl, text
Init == lvl = 0 /\ text = <<>>
Next == lvl = 0 /\ lvl' = 1 /\ \E v \in Vals : \E x \in MacroSpellings(v) : text' \in Templates(x)
Spec == Init /\ [][Next]_<<lvl, text>>
Emit == lvl = 1 => PrintT(ToJson([text |-> text, kind |-> "macro"]))
Agree == lvl = 1 => ParseDocument(text).res = "ok"
=============================================================================
