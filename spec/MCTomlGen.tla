----------------------------- MODULE MCTomlGen -----------------------------
(***************************************************************************)
(* TLC model of the generator: enumerates abstract values x every spelling *)
(* x document templates (and, when MUT, every single-symbol mutation of a  *)
(* subset), emits one text per state (direction G) and cross-checks the    *)
(* generator against the recogniser: a text generated from a valid         *)
(* abstract value must be accepted by TomlLex and decode to that value; a  *)
(* text generated from an out-of-range number must be rejected.            *)
(***************************************************************************)
EXTENDS TomlLex, TomlGen, Json

CONSTANTS MUT,      \* also emit mutants of a subset of the texts
          MUTMOD,   \* every MUTMOD-th text (by length+content hash) is mutated
          MUTLEN,   \* only texts of at most this length are mutated
          MUTSEED   \* shifts the selection

S(cps) == [k |-> "s", v |-> cps, sp |-> NoSpan]
Ig(neg, d) == VI(neg, d, NoSpan)
Fl(c, neg, d, e) == VF(c, neg, d, e, NoSpan)
Dt(date, time, off) == VDT(date, time, off, NoSpan)
Off(t, m) == [t |-> t, m |-> m]

P63 == <<9,2,2,3,3,7,2,0,3,6,8,5,4,7,7,5,8,0,8>>
\* [v |-> abstract value, valid |-> the value is representable]
Ints ==
  {[v |-> Ig(FALSE, <<0>>), valid |-> TRUE], [v |-> Ig(FALSE, <<1>>), valid |-> TRUE], [v |-> Ig(TRUE, <<1>>), valid |-> TRUE],
   [v |-> Ig(FALSE, <<7>>), valid |-> TRUE], [v |-> Ig(FALSE, <<1, 0>>), valid |-> TRUE], [v |-> Ig(TRUE, <<4, 2>>), valid |-> TRUE],
   [v |-> Ig(FALSE, <<2, 5, 5>>), valid |-> TRUE], [v |-> Ig(FALSE, <<1, 0, 0, 0>>), valid |-> TRUE],
   [v |-> Ig(FALSE, <<6, 5, 5, 3, 5>>), valid |-> TRUE], [v |-> Ig(TRUE, <<1, 2, 3, 4, 5>>), valid |-> TRUE],
   [v |-> Ig(FALSE, <<2, 1, 4, 7, 4, 8, 3, 6, 4, 8>>), valid |-> TRUE],
   [v |-> Ig(FALSE, <<4, 2, 9, 4, 9, 6, 7, 2, 9, 6>>), valid |-> TRUE],
   [v |-> Ig(FALSE, MaxPos), valid |-> TRUE], [v |-> Ig(TRUE, MaxPos), valid |-> TRUE], [v |-> Ig(TRUE, P63), valid |-> TRUE],
   [v |-> Ig(FALSE, P63), valid |-> FALSE],
   [v |-> Ig(TRUE, <<9,2,2,3,3,7,2,0,3,6,8,5,4,7,7,5,8,0,9>>), valid |-> FALSE],
   [v |-> Ig(FALSE, <<1,8,4,4,6,7,4,4,0,7,3,7,0,9,5,5,1,6,1,5>>), valid |-> FALSE],
   [v |-> Ig(FALSE, <<1,8,4,4,6,7,4,4,0,7,3,7,0,9,5,5,1,6,1,6>>), valid |-> FALSE],
   [v |-> Ig(TRUE, <<1,8,4,4,6,7,4,4,0,7,3,7,0,9,5,5,1,6,1,6>>), valid |-> FALSE],
   [v |-> Ig(FALSE, <<1,0,0,0,0,0,0,0,0,0,0,0,0,0,0,0,0,0,0,0,0,0,0,0,0,0,0,0,0,0>>), valid |-> FALSE]}

D17max == <<1,7,9,7,6,9,3,1,3,4,8,6,2,3,1,5,7>>
Floats ==
  {[v |-> Fl("zero", n, <<>>, 0), valid |-> TRUE] : n \in BOOLEAN}
  \cup {[v |-> Fl("inf", n, <<>>, 0), valid |-> TRUE] : n \in BOOLEAN}
  \cup {[v |-> Fl("nan", n, <<>>, 0), valid |-> TRUE] : n \in BOOLEAN}
  \cup {[v |-> Fl("fin", n, d, e), valid |-> TRUE] : n \in BOOLEAN,
          d \in {<<1>>, <<5>>, <<1, 5>>, <<3, 1, 4, 1, 5>>, <<6, 6, 2, 6>>, <<1, 2, 3, 4, 5, 6, 7, 8, 9, 0, 1, 2, 3, 4, 5>>},
          e \in {0, 1, 0 - 1, 6, 0 - 7, 22, 0 - 34, 15, 16, 21, 100, 0 - 300, 307}}
  \cup {[v |-> Fl("fin", n, D17max, 308), valid |-> TRUE] : n \in BOOLEAN}
  \cup {[v |-> Fl("fin", n, <<2, 2, 2, 5, 0, 7, 3, 8, 5, 8, 5, 0, 7, 2, 0, 1, 4>>, 0 - 308), valid |-> TRUE] : n \in BOOLEAN}
  \cup {[v |-> Fl("fin", n, <<5>>, 0 - 324), valid |-> TRUE] : n \in BOOLEAN}
  \cup {[v |-> Fl("fin", n, <<1>>, 0 - 400), valid |-> TRUE] : n \in BOOLEAN}
  \* out of range, both signs (L2)
  \cup {[v |-> Fl("fin", n, d, e), valid |-> FALSE] : n \in BOOLEAN,
          d \in {<<1>>, <<9>>, <<1, 8>>, <<1,7,9,7,6,9,3,1,3,4,8,6,2,3,1,5,9>>}, e \in {309, 400, 99999}}
  \cup {[v |-> Fl("fin", n, <<1,7,9,7,6,9,3,1,3,4,8,6,2,3,1,5,8,1>>, 308), valid |-> FALSE] : n \in BOOLEAN}
  \cup {[v |-> Fl("fin", n, <<1, 8>>, 308), valid |-> FALSE] : n \in BOOLEAN}

Chs == {34, 39, 92, 10, 13, 9, 32, 0, 8, 31, 127, 35, 97, 233, 128512, 65279, 55295, 57344, 1114111}
Strs == {<<>>} \cup {<<c>> : c \in Chs} \cup {<<c1, c2>> : c1 \in {34, 39, 92, 10, 32, 97}, c2 \in {34, 39, 92, 10, 32, 97, 233}}
        \cup {<<34, 34, 97>>, <<97, 34, 34>>, <<39, 39, 97>>, <<97, 39, 39>>, <<34, 34, 34>>, <<39, 39, 39>>, <<97, 10, 10, 98>>,
              <<10, 97>>, <<32, 10, 32, 97>>, <<92, 110>>, <<31, 97>>, <<127, 70>>, <<0, 48>>, <<233, 8, 98>>, <<97, 92>>, <<116, 114, 117, 101>>, <<49, 50>>, <<97, 46, 98>>}
Strings == {[v |-> S(s), valid |-> TRUE] : s \in Strs}

Dates == {<<1979, 5, 27>>, <<2000, 2, 29>>, <<2023, 12, 31>>, <<1, 1, 1>>, <<9999, 12, 31>>, <<1900, 2, 28>>, <<2024, 2, 29>>}
Times == {<<7, 32, 0, 0>>, <<0, 0, 0, 0>>, <<23, 59, 59, 999999999>>, <<23, 59, 60, 0>>, <<12, 0, 0, 500000000>>, <<1, 2, 3, 120>>}
Offsets == {Off("N", 0), Off("Z", 0), Off("O", 0), Off("O", 60), Off("O", 0 - 420), Off("O", 1439), Off("O", 0 - 1439), Off("O", 330)}
Datetimes == {[v |-> Dt(d, t, o), valid |-> TRUE] : d \in Dates, t \in Times, o \in Offsets}
             \cup {[v |-> Dt(d, <<>>, Off("N", 0)), valid |-> TRUE] : d \in Dates}
             \cup {[v |-> Dt(<<>>, t, Off("N", 0)), valid |-> TRUE] : t \in Times}
Bools == {[v |-> VB(b, NoSpan), valid |-> TRUE] : b \in BOOLEAN}

Scalars == Ints \cup Floats \cup Strings \cup Datetimes \cup Bools

KA == <<107>>
\* document templates around one value text x
Templates(x) ==
  {KA \o <<32, 61, 32>> \o x \o <<10>>,
   KA \o <<61>> \o x,
   <<9>> \o KA \o <<9, 61, 9>> \o x \o <<32, 35, 32, 99, 13, 10>>,
   <<91, 116, 93, 10>> \o KA \o <<32, 61, 32>> \o x \o <<10>>,
   KA \o <<32, 61, 32, 91>> \o x \o <<44, 32>> \o x \o <<93, 10>>,
   KA \o <<32, 61, 32, 123, 32, 113, 32, 61, 32>> \o x \o <<32, 125, 10>>}
\* which templates can carry a multi-line token (inline tables cannot contain newlines... they can inside strings)
Tmpl(x) == Templates(x)

ExpectedTree(tn, v) ==  \* the tree each template denotes, as Plain value
  LET pv == Plain(v)
      e(k, val) == [key |-> k, val |-> val]
      root(es) == [k |-> "t", v |-> es]
  IN pv

VARIABLES lvl, item, text, kind
vars == <<lvl, item, text, kind>>

Init == lvl = 0 /\ item = [v |-> Dummy, valid |-> TRUE] /\ text = <<>> /\ kind = "root"

PickItem == lvl = 0 /\ lvl' = 1 /\ item' \in Scalars /\ text' = <<>> /\ kind' = "item"
PickSpelling ==
  /\ lvl = 1 /\ lvl' = 2 /\ item' = item /\ kind' = "doc"
  /\ \E sp \in ScalarSpellings(item.v) : text' \in Templates(sp)

\* keys: every spelling of every key string, in key/value, dotted and header position
KeyStrs == {<<c>> : c \in Chs} \cup {<<>>, <<97, 98>>, <<49>>, <<45>>, <<95>>, <<116, 114, 117, 101>>, <<49, 46, 50>>, <<34, 39>>, <<97, 32, 98>>}
PickKey == lvl = 0 /\ lvl' = 1 /\ item' \in {[v |-> S(s), valid |-> TRUE] : s \in KeyStrs} /\ text' = <<>> /\ kind' = "key"
PickKeySpelling ==
  /\ lvl = 1 /\ kind = "key" /\ lvl' = 2 /\ item' = item /\ kind' = "keydoc"
  /\ \E ks \in KeySpellings(item.v.v) :
       text' \in {ks \o <<32, 61, 32, 49, 10>>,
                  ks \o <<61, 49>>,
                  <<97, 46>> \o ks \o <<32, 61, 32, 49, 10>>,
                  ks \o <<32, 46, 9>> \o ks \o <<46, 98, 32, 61, 32, 49, 10>>,
                  <<91>> \o ks \o <<93, 10>>,
                  <<91, 91, 32>> \o ks \o <<32, 46, 32>> \o ks \o <<32, 93, 93, 10, 120, 61, 49>>,
                  <<120, 32, 61, 32, 123>> \o ks \o <<61, 49, 125>>}

\* containers: layouts around a few element texts
Elems == {<<49>>, <<34, 97, 34>>, <<91, 93>>, <<123, 125>>, <<116, 114, 117, 101>>, <<49, 46, 53>>}
PickLayout ==
  /\ lvl = 0 /\ lvl' = 2 /\ item' = item /\ kind' = "layout"
  /\ \E es \in ({<<>>} \cup {<<a>> : a \in Elems} \cup {<<a, b>> : a, b \in Elems}) :
       \/ \E t \in ArrayLayouts(es) : text' = KA \o <<32, 61, 32>> \o t \o <<10>>
       \/ /\ Len(es) <= 2
          /\ \E t \in InlineLayouts([i \in 1..Len(es) |-> <<96 + i, 32, 61, 32>> \o es[i]]) : text' = KA \o <<61>> \o t
       \/ \E t \in ArrayLayouts(es) : \E u \in ArrayLayouts(<<t, t>>) : Len(es) <= 1 /\ text' = KA \o <<61>> \o u

\* decor slots of key/value and header lines
PickDecor ==
  /\ lvl = 0 /\ lvl' = 2 /\ item' = item /\ kind' = "decor"
  /\ \E w1, w2 \in WsSet, c \in CommentSet, nl \in {<<10>>, <<13, 10>>}, end \in {<<10>>, <<13, 10>>, <<>>} :
       text' \in {w1 \o KA \o w2 \o <<61>> \o w1 \o <<49>> \o w2 \o c \o end,
                  w1 \o <<91>> \o w2 \o KA \o w1 \o <<46>> \o w2 \o KA \o w1 \o <<93>> \o w2 \o c \o end,
                  w1 \o <<91, 91>> \o w2 \o KA \o w1 \o <<93, 93>> \o w2 \o c \o nl \o KA \o <<61, 49>> \o nl \o c \o nl \o w1 \o end,
                  c \o nl \o w1 \o nl \o KA \o <<61, 49>> \o w1 \o nl \o w2 \o c \o end,
                  <<65279>> \o w1 \o c \o nl \o KA \o <<61, 49>> \o end}

Symbols == {0, 8, 9, 10, 11, 12, 13, 31, 32, 33, 34, 35, 39, 43, 44, 45, 46, 47, 48, 49, 55, 56, 57, 58, 61, 65, 69, 70, 71,
            84, 85, 90, 91, 92, 93, 95, 97, 98, 101, 102, 103, 105, 110, 111, 116, 117, 120, 122, 123, 125, 126, 127, 128, 233,
            2047, 2048, 55295, 57344, 65279, 65535, 65536, 1114111}
RECURSIVE SumSeq(_)
SumSeq(s) == IF s = <<>> THEN 0 ELSE (Head(s) % 1000) + SumSeq(Tail(s))
Mutable(t) == MUT /\ Len(t) <= MUTLEN /\ (SumSeq(t) + Len(t) + MUTSEED) % MUTMOD = 0
Mutate ==
  /\ lvl = 2 /\ Mutable(text) /\ lvl' = 3 /\ item' = item /\ kind' = "mutant"
  /\ \/ \E p \in 1..Len(text), c \in Symbols : c # text[p] /\ text' = [text EXCEPT ![p] = c]
     \/ \E p \in 1..(Len(text) + 1), c \in Symbols : text' = SubSeq(text, 1, p - 1) \o <<c>> \o SubSeq(text, p, Len(text))
     \/ \E p \in 1..Len(text) : text' = SubSeq(text, 1, p - 1) \o SubSeq(text, p + 1, Len(text))
     \/ \E p \in 1..Len(text) : text' = SubSeq(text, 1, p - 1)

Next == PickItem \/ PickSpelling \/ PickKey \/ PickKeySpelling \/ PickLayout \/ PickDecor \/ Mutate
Spec == Init /\ [][Next]_vars

Emit == lvl >= 2 => PrintT(ToJson([text |-> text, kind |-> kind]))

\* ---- generator vs recogniser ----
\* find the value(s) of key k / q in the decoded tree of a template
RECURSIVE Leaves(_)
Leaves(v) == CASE v.k = "a" -> UNION {Leaves(v.v[i]) : i \in 1..Len(v.v)}
               [] v.k = "t" -> UNION {Leaves(v.v[i].val) : i \in 1..Len(v.v)}
               [] OTHER -> {v}
SameScalar(a, b) ==  \* a: decoded, b: abstract (Plain records)
  /\ a.k = b.k
  /\ CASE a.k = "s" -> a.v = b.v
       [] a.k = "i" -> a.neg = b.neg /\ a.d = b.d
       [] a.k = "b" -> a.v = b.v
       [] a.k = "f" -> a.c = b.c /\ a.neg = b.neg /\ a.d = b.d /\ a.e = b.e
       [] a.k = "dt" -> a.date = b.date /\ a.time = b.time /\ a.off.t = b.off.t /\ a.off.m = b.off.m
GenLexAgree ==
  lvl = 2 /\ kind = "doc" =>
    LET p == ParseDocument(text) IN
    IF item.valid THEN p.res = "ok" /\ \A l \in Leaves(p.tree) : SameScalar(l, item.v)
    ELSE p.res = "rej"
KeyAgree ==
  lvl = 2 /\ kind = "keydoc" =>
    LET p == ParseDocument(text) IN
    p.res = "ok" /\ \E i \in 1..Len(p.tree.v) : p.tree.v[i].key \in {item.v.v, <<97>>, <<120>>}
LayoutAgree == lvl = 2 /\ kind \in {"layout", "decor"} => ParseDocument(text).res = "ok"
=============================================================================
