----------------------------- MODULE EncodeImpl -----------------------------
(***************************************************************************)
(* Implementation-shaped model of the document printer                     *)
(* (crates/toml_edit/src/encode.rs: Display for DocumentMut,               *)
(* visit_nested_tables, visit_table; table.rs: get_values / append_values) *)
(* over the in-memory tree of ParseStateImpl (tables with the flags        *)
(* implicit / dotted and a position, 0 = none), and of the two edits that  *)
(* change which tables exist: Table::insert and Table::remove.             *)
(*                                                                         *)
(* What the printer does with *where* tables go is an algorithm, not a      *)
(* grammar: every table that is not dotted is collected in map order, a     *)
(* table without a position takes the position of the table collected just  *)
(* before it, the list is sorted by position (stably), and each table       *)
(* prints its header (unless it is implicit and has no pairs of its own)    *)
(* followed by its pairs, dotted-key tables flattened into key paths.       *)
(* MCEncode checks that whatever this prints re-parses (contract TomlDoc)   *)
(* to the content of the tree it was printed from; Validate compares the    *)
(* statement order it predicts with the real printer's (model drift).       *)
(***************************************************************************)
EXTENDS ParseStateImpl

IsIdxSt(st) == Len(st) = 2 /\ st[1] = 0 - 1

\* ---- visit_nested_tables: every non-dotted table with its header path, in map order ----
RECURSIVE Visit(_, _, _), VisitItems(_, _), VisitElems(_, _)
Visit(t, path, isArr) ==
  (IF ~t.dotted THEN <<[t |-> t, path |-> path, arr |-> isArr]>> ELSE <<>>) \o VisitItems(t.items, path)
VisitItems(items, path) ==
  IF items = <<>> THEN <<>>
  ELSE LET e == Head(items) p == Append(path, e.key) IN
       (CASE e.it.t = "tbl" -> Visit(e.it.tbl, p, FALSE)
          [] e.it.t = "aot" -> VisitElems(e.it.elems, p)
          [] OTHER -> <<>>) \o VisitItems(Tail(items), path)
VisitElems(es, p) == IF es = <<>> THEN <<>> ELSE Visit(Head(es), p, TRUE) \o VisitElems(Tail(es), p)

\* "if let Some(pos) = t.position() { last_position = pos }; tables.push((last_position, ..))"
RECURSIVE WithPositions(_, _, _)
WithPositions(vs, i, last) ==
  IF i > Len(vs) THEN <<>>
  ELSE LET p == IF vs[i].t.pos # 0 THEN vs[i].t.pos ELSE last IN
       <<[t |-> vs[i].t, path |-> vs[i].path, arr |-> vs[i].arr, p |-> p]>> \o WithPositions(vs, i + 1, p)

\* tables.sort_by_key (stable)
RECURSIVE InsByPos(_, _), StableByPos(_, _)
InsByPos(sorted, x) == IF sorted = <<>> THEN <<x>>
                       ELSE IF x.p < Head(sorted).p THEN <<x>> \o sorted ELSE <<Head(sorted)>> \o InsByPos(Tail(sorted), x)
StableByPos(xs, acc) == IF xs = <<>> THEN acc ELSE StableByPos(Tail(xs), InsByPos(acc, Head(xs)))

\* get_values: the pairs printed in the body of a table, dotted-key tables flattened
RECURSIVE ValuesOf(_, _)
ValuesOf(items, prefix) ==
  IF items = <<>> THEN <<>>
  ELSE LET e == Head(items) p == Append(prefix, e.key) IN
       (CASE e.it.t = "tbl" -> IF e.it.tbl.dotted THEN ValuesOf(e.it.tbl.items, p) ELSE <<>>
          [] e.it.t = "val" -> <<[path |-> p, val |-> e.it.val]>>
          [] OTHER -> <<>>) \o ValuesOf(Tail(items), prefix)

KPath(names) == [j \in 1..Len(names) |-> [s |-> names[j], sp |-> NoSpan]]
\* visit_table: header (hidden for the root, and for an implicit table without pairs) and body
TableStmts(x) ==
  LET vals == ValuesOf(x.t.items, <<>>)
      header == IF x.path = <<>> THEN <<>>
                ELSE IF x.arr THEN <<[kind |-> "aot", path |-> KPath(x.path), val |-> Dummy]>>
                ELSE IF ~(x.t.implicit /\ vals = <<>>) THEN <<[kind |-> "std", path |-> KPath(x.path), val |-> Dummy]>>
                ELSE <<>>
  IN header \o [j \in 1..Len(vals) |-> [kind |-> "kv", path |-> KPath(vals[j].path), val |-> vals[j].val]]
RECURSIVE ConcatStmts(_)
ConcatStmts(xs) == IF xs = <<>> THEN <<>> ELSE TableStmts(Head(xs)) \o ConcatStmts(Tail(xs))

\* the statements Display writes, in order (the pairs of a table directly under its header)
PrintStmts(root) == ConcatStmts(StableByPos(WithPositions(Visit(root, <<>>, FALSE), 1, 0), <<>>))

\* ---- the two edits that change which tables exist ----
\* a path = key steps, an array-of-tables element as the step <<-1, i>> after the key of the array
RECURSIVE TblPaths(_, _), ItemsPaths(_, _), ElemsPaths(_, _, _)
TblPaths(t, p) == {p} \cup ItemsPaths(t.items, p)
ItemsPaths(items, p) ==
  IF items = <<>> THEN {}
  ELSE LET e == Head(items) q == Append(p, e.key) IN
       (CASE e.it.t = "tbl" -> TblPaths(e.it.tbl, q)
          [] e.it.t = "aot" -> ElemsPaths(e.it.elems, q, 0)
          [] OTHER -> {}) \cup ItemsPaths(Tail(items), p)
ElemsPaths(es, q, i) == IF es = <<>> THEN {} ELSE TblPaths(Head(es), Append(q, <<0 - 1, i>>)) \cup ElemsPaths(Tail(es), q, i + 1)

\* Table::insert(key, item): an existing key keeps its slot, a new one is appended; Table::remove: shift_remove
DoEdit(t, m) ==
  LET j == IPos(t.items, m.key) IN
  CASE m.op = "insert" -> IF j = 0 THEN [t EXCEPT !.items = Append(t.items, [key |-> m.key, it |-> m.it])]
                          ELSE [t EXCEPT !.items[j].it = m.it]
    [] m.op = "remove" -> IF j = 0 THEN t ELSE [t EXCEPT !.items = SubSeq(t.items, 1, j - 1) \o SubSeq(t.items, j + 1, Len(t.items))]
RECURSIVE EditAt(_, _, _)
EditAt(t, path, m) ==
  IF path = <<>> THEN DoEdit(t, m)
  ELSE LET j == IPos(t.items, Head(path)) it == t.items[j].it IN
       IF it.t = "tbl" THEN [t EXCEPT !.items[j].it.tbl = EditAt(it.tbl, Tail(path), m)]
       ELSE LET n == path[2][2] + 1 IN [t EXCEPT !.items[j].it.elems[n] = EditAt(it.elems[n], SubSeq(path, 3, Len(path)), m)]
\* a table made through the API: Table::new() (no position, neither implicit nor dotted) holding `id = n`
NewApiTable(v) == TblItem([NewTbl EXCEPT !.items = <<[key |-> <<105, 100>>, it |-> ValItem(v)]>>])

\* ---- what the printer shows of a tree: implicit and dotted tables that hold nothing are not spelled ----
\* (implicit: documented in visit_table; dotted: known finding F20; an empty array of tables cannot be spelled)
RECURSIVE ShownTbl(_), ShownItems(_), ShownElems(_)
ShownTbl(t) == [t EXCEPT !.items = ShownItems(t.items)]
ShownItems(items) ==
  IF items = <<>> THEN <<>>
  ELSE LET e == Head(items) IN
       (CASE e.it.t = "tbl" -> LET s == ShownTbl(e.it.tbl) IN
                               IF (s.implicit \/ s.dotted) /\ s.items = <<>> THEN <<>> ELSE <<[e EXCEPT !.it.tbl = s]>>
          [] e.it.t = "aot" -> IF e.it.elems = <<>> THEN <<>> ELSE <<[e EXCEPT !.it.elems = ShownElems(e.it.elems)]>>
          [] OTHER -> <<e>>) \o ShownItems(Tail(items))
ShownElems(es) == IF es = <<>> THEN <<>> ELSE <<ShownTbl(Head(es))>> \o ShownElems(Tail(es))

\* same content, the order of the keys of a table free (values are printed before sub-tables)
RECURSIVE SameTree(_, _)
SameTree(a, b) ==
  /\ a.k = b.k
  /\ CASE a.k = "t" -> /\ Len(a.v) = Len(b.v)
                       /\ \A x \in 1..Len(a.v) : \E y \in 1..Len(b.v) : b.v[y].key = a.v[x].key /\ SameTree(a.v[x].val, b.v[y].val)
       [] a.k = "a" -> Len(a.v) = Len(b.v) /\ \A x \in 1..Len(a.v) : SameTree(a.v[x], b.v[x])
       [] OTHER -> a = b

\* the printed statements are a document of the contract, with the content of the tree they were printed from
PrintedOK(root) ==
  LET d == Define(PrintStmts(root)) IN
  \/ d.res = "u1"
  \/ d.res = "ok" /\ SameTree(Plain(Tree(d.st)), TblTree(ShownTbl(root)))

\* shape of a statement sequence, for the comparison with the real printer
Shape(stmts) == [j \in 1..Len(stmts) |-> <<stmts[j].kind, [x \in 1..Len(stmts[j].path) |-> stmts[j].path[x].s]>>]
=============================================================================
