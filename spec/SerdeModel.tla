----------------------------- MODULE SerdeModel -----------------------------
(***************************************************************************)
(* The serde data model supported by TOML (C07, C13, C17).  A value is     *)
(* given by its shape in the serde data model (SDM), as captured from the  *)
(* calls a Serialize impl makes:                                           *)
(*   bool, int(w, neg, d), float(f), str, dt, none, some(v), unit,         *)
(*   newtype(v), seq, tuple, map, struct, uvar / nvar / tvar / svar        *)
(*   (unit / newtype / tuple / struct variant)                             *)
(* Enc maps a shape to the TOML tree it must be written as, to "none"      *)
(* (absent: an Option::None field) or to an error for exactly the          *)
(* documented unsupported shapes.                                          *)
(***************************************************************************)
EXTENDS TomlLex

OkV(v) == [st |-> "ok", v |-> v, why |-> ""]
NoneV == [st |-> "none", v |-> Dummy, why |-> ""]
ErrV(why) == [st |-> "err", v |-> Dummy, why |-> why]
StrV(cps) == VStr(cps, cps, FALSE, NoSpan)

\* the key a map/struct entry is written under: strings, chars and unit variants
KeyOf(k) == CASE k.k = "str" -> [ok |-> TRUE, s |-> k.v]
              [] k.k = "uvar" -> [ok |-> TRUE, s |-> k.var]
              [] k.k \in {"some", "newtype"} /\ k.v.k = "str" -> [ok |-> TRUE, s |-> k.v.v]
              [] OTHER -> [ok |-> FALSE, s |-> <<>>]

RECURSIVE Enc(_), EncSeq(_, _), EncEntries(_, _)
Wrap(var, r) == IF r.st = "ok" THEN OkV(VT(<<Entry(var, r.v, FALSE, NoSpan)>>, NoSpan))
                ELSE IF r.st = "none" THEN ErrV("none-in-variant") ELSE r
Enc(s) ==
  CASE s.k = "bool" -> OkV(VB(s.v, NoSpan))
    [] s.k = "int" -> IF I64InRange(s.neg, s.d) THEN OkV(VI(s.neg, s.d, NoSpan)) ELSE ErrV("integer-out-of-range")
    [] s.k = "float" -> OkV(VF(s.f.c, IF s.f.c = "nan" THEN FALSE ELSE s.f.neg, s.f.d, s.f.e, NoSpan))
    [] s.k = "str" -> OkV(StrV(s.v))
    [] s.k = "dt" -> OkV(VDT(s.v.date, s.v.time, s.v.off, NoSpan))
    [] s.k \in {"none", "unit"} -> NoneV
    [] s.k \in {"some", "newtype"} -> Enc(s.v)
    [] s.k \in {"seq", "tuple"} -> EncSeq(s.v, <<>>)
    [] s.k \in {"map", "struct"} -> EncEntries(s.v, <<>>)
    [] s.k = "uvar" -> OkV(StrV(s.var))
    [] s.k = "nvar" -> Wrap(s.var, Enc(s.v))
    [] s.k = "tvar" -> Wrap(s.var, EncSeq(s.v, <<>>))
    [] s.k = "svar" -> Wrap(s.var, EncEntries(s.v, <<>>))
    [] OTHER -> ErrV("unsupported-shape")
EncSeq(items, acc) ==
  IF items = <<>> THEN OkV(VA(acc, NoSpan))
  ELSE LET e == Enc(Head(items)) IN
       IF e.st = "err" THEN e
       ELSE IF e.st = "none" THEN ErrV("none-in-sequence")
       ELSE EncSeq(Tail(items), Append(acc, e.v))
EncEntries(es, acc) ==
  IF es = <<>> THEN OkV(VT(acc, NoSpan))
  ELSE LET k == KeyOf(Head(es).key)
           e == Enc(Head(es).val) IN
       IF ~k.ok THEN ErrV("key-not-a-string")
       ELSE IF e.st = "err" THEN e
       ELSE IF e.st = "none" THEN EncEntries(Tail(es), acc)
       ELSE EncEntries(Tail(es), Append(acc, Entry(k.s, e.v, FALSE, NoSpan)))

\* a document is a table
Root(s) == LET e == Enc(s) IN
           IF e.st = "ok" /\ e.v.k # "t" THEN ErrV("root-not-a-table")
           ELSE IF e.st = "none" THEN ErrV("root-not-a-table") ELSE e
\* `Some`/newtype wrappers are transparent; is the root written through a struct variant?
RECURSIVE RootIsStructVariant(_)
RootIsStructVariant(s) == IF s.k \in {"some", "newtype"} THEN RootIsStructVariant(s.v) ELSE s.k \in {"svar", "nvar", "tvar"}
=============================================================================
