---------------------------- MODULE MCContainers ----------------------------
(* State machine over Containers: every history of at most MaxN mutating    *)
(* calls; laws as invariants / action properties; one emitted history per   *)
(* behaviour (direction G).                                                 *)
EXTENDS Containers, TLC, Json

CONSTANTS SETUP, KIND,      \* "table" | "inline" | "tablelike_table" | "tablelike_inline" | "map_sorted" | "map_insertion" | "array" | "aot"
          MaxN, Keys, EMIT,
          SAMPLE     \* keep one in SAMPLE of the operations at the last level (1 = all)

IsSeqKind == KIND \in {"array", "aot"}
TableVals == IF KIND \in {"table", "tablelike_table"} THEN {1, 3, 4} ELSE IF KIND \in {"map_sorted", "map_insertion"} THEN {1, 2} ELSE {1, 2}
HasPlaceholders == KIND \in {"table", "inline", "tablelike_table", "tablelike_inline"}
Op(op, k, v) == [op |-> op, k |-> k, v |-> v, k2 |-> "", ks |-> {}, i |-> 0, vs |-> {}, v2 |-> 0]
KeepSets == {{}, {"a"}, ({"a", "c"} \cap Keys), (Keys \ {"a"})}
IsLike == KIND \in {"tablelike_table", "tablelike_inline"}
MapOps ==
  {Op("insert", k, v) : k \in Keys, v \in TableVals}
  \cup {Op("remove", k, 0) : k \in Keys}
  \cup {Op("entry_or_insert", k, v) : k \in Keys, v \in (({2} \cap TableVals) \cup {1})}
  \cup {Op("entry_insert", k, 2) : k \in Keys}
  \cup {Op("entry_remove", k, 0) : k \in Keys}
  \cup {Op("clear", "", 0)}
  \* not part of the TableLike trait
  \cup (IF IsLike THEN {} ELSE {[Op("retain", "", 0) EXCEPT !.ks = ks] : ks \in KeepSets} \cup {[Op("extend", "b", 2) EXCEPT !.k2 = "a"]})
  \cup (IF HasPlaceholders THEN {Op("index_mut", k, 0) : k \in Keys} \cup {Op("index_assign", k, 1) : k \in Keys}
                               \cup {Op("sort_values", "", 0)}
                               \* the same order through the comparator API (placeholders take part in the comparison)
                               \cup (IF IsLike THEN {} ELSE {Op("sort_values_by_key", "", 0)})
        ELSE {})
  \cup (IF HasPlaceholders /\ ~IsLike THEN {Op("remove_entry", k, 0) : k \in Keys} \cup {Op("insert_formatted", k, 2) : k \in Keys} ELSE {})
  \cup (IF KIND = "inline" THEN {Op("get_or_insert", k, 2) : k \in Keys} ELSE {})
SeqOps ==
  {Op("push", "", v) : v \in {1, 2}}
  \cup {[Op("remove_at", "", 0) EXCEPT !.i = i] : i \in 0..2}
  \cup {[Op("retain", "", 0) EXCEPT !.vs = vs] : vs \in {{}, {1}, {2}}}
  \cup {Op("clear", "", 0)}
  \cup {[Op("extend", "", 1) EXCEPT !.v2 = 2]}
  \cup (IF KIND = "array" THEN {[Op("insert_at", "", 2) EXCEPT !.i = i] : i \in 0..2} \cup {[Op("replace", "", 1) EXCEPT !.i = i] : i \in 0..2}
                               \cup {Op("sort_by_key_mod3", "", 0), Op("push", "", 4)}
        ELSE {})

VARIABLES st, hist, ret
vars == <<st, hist, ret>>
\* SETUP = 1: every history starts with three calls that leave three entries out of key order - with a placeholder
\* between two of them where the kind has placeholders - so that short continuations meet a populated container
SetupOps == IF SETUP = 0 THEN <<>>
            ELSE IF IsSeqKind THEN <<Op("push", "", 2), Op("push", "", 1), Op("push", "", 2)>>
            ELSE IF HasPlaceholders THEN <<Op("insert", "b", 1), Op("index_mut", "c", 0), Op("insert", "a", 1)>>
            ELSE <<Op("insert", "b", 1), Op("insert", "c", 1), Op("insert", "a", 1)>>
RECURSIVE AfterOps(_, _, _)
AfterOps(S, ops, j) ==
  IF j > Len(ops) THEN S
  ELSE AfterOps(UNION {IF IsSeqKind THEN {r.m : r \in SeqApply(s, ops[j])} ELSE {r.m : r \in MapApply(KIND, s, ops[j])} : s \in S}, ops, j + 1)
Init == st \in AfterOps({<<>>}, SetupOps, 1) /\ hist = SetupOps /\ ret = 0 - 1
OpWeight(o) == Len(o.op) + Ord(o.k) * 3 + o.v * 5 + o.i * 7 + Cardinality(o.ks) * 11 + Cardinality(o.vs) * 13
HistWeight == IF hist = <<>> THEN 0 ELSE OpWeight(hist[1]) + 17 * Len(hist) + (IF Len(hist) > 1 THEN 19 * OpWeight(hist[2]) ELSE 0)
Keep(o) == IF Len(hist) + 1 < MaxN \/ SAMPLE = 1 THEN TRUE ELSE (OpWeight(o) + HistWeight) % SAMPLE = 0
MapStep == /\ ~IsSeqKind /\ Len(hist) < MaxN
           /\ \E o \in MapOps : Keep(o) /\ \E r \in MapApply(KIND, st, o) : st' = r.m /\ ret' = r.ret /\ hist' = Append(hist, o)
SeqStep == /\ IsSeqKind /\ Len(hist) < MaxN
           /\ \E o \in SeqOps : Keep(o) /\ SeqEnabled(st, o) /\ \E r \in SeqApply(st, o) : st' = r.m /\ ret' = r.ret /\ hist' = Append(hist, o)
Next == MapStep \/ SeqStep
Spec == Init /\ [][Next]_vars

\* ---- laws ----
Laws == IsSeqKind \/ (/\ NoDuplicateKeys(st)
                      /\ Len(Visible(st)) = Cardinality({st[i].k : i \in {x \in 1..Len(st) : st[x].v # 0}})
                      /\ (IsSortedKind(KIND) => \A i \in 1..(Len(st) - 1) : Ord(st[i].k) < Ord(st[i + 1].k)))
LastOp == hist'[Len(hist')]
\* removal keeps the remaining entries in order; nothing but the named key disappears
RemovalKeepsOrder ==
  [][(~IsSeqKind /\ LastOp.op \in {"remove", "remove_entry", "entry_remove", "retain"}) =>
       IsSubseq(VisKeys(st'), VisKeys(st))]_vars
\* inserting an existing key keeps its position and everyone else's
InsertKeepsPosition ==
  [][(~IsSeqKind /\ ~IsSortedKind(KIND) /\ LastOp.op \in {"insert", "insert_formatted", "index_assign", "entry_insert"} /\ ValAt(st, LastOp.k) # 0) =>
       VisKeys(st') = VisKeys(st)]_vars
\* reads never change the visible state; placeholders are never visible
ReadsArePure == [][(~IsSeqKind /\ LastOp.op \in {"index_mut"}) => Visible(st') = Visible(st)]_vars

RenderOp(o) == [op |-> o.op, k |-> o.k, v |-> o.v, k2 |-> o.k2, ks |-> o.ks, i |-> o.i, vs |-> o.vs, v2 |-> o.v2]
Emit == EMIT => PrintT(ToJson([kind |-> KIND, ops |-> [j \in 1..Len(hist) |-> RenderOp(hist[j])]]))
=============================================================================
