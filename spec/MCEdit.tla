-------------------------------- MODULE MCEdit --------------------------------
(* State machine of structural edits over the content of a start document:    *)
(* every operation on every addressable position, histories up to MaxN.       *)
(* Checks content-level laws of the edit semantics and emits one history per  *)
(* behaviour for replay through the real API.                                 *)
EXTENDS EditDef, EditDocs, TomlLex, TLC, Json

CONSTANTS DocNo, MaxN, EMIT, SAMPLE   \* SAMPLE: keep one in SAMPLE of the second-level operations (1 = all)

Start == Plain(ParseDocument(EditDocs[DocNo]).tree)
ZZ == <<122, 122>>

\* every path to a table (standard, inline, dotted or an element of an array of tables / array)
RECURSIVE TablePaths(_, _), SeqPaths(_, _, _), EntryPaths(_, _)
TablePaths(t, p) ==
  CASE t.k = "t" -> {p} \cup EntryPaths(t.v, p)
    [] t.k = "a" -> SeqPaths(t.v, p, 0)
    [] OTHER -> {}
SeqPaths(vs, p, i) == IF vs = <<>> THEN {} ELSE TablePaths(Head(vs), Append(p, IdxStep(i))) \cup SeqPaths(Tail(vs), p, i + 1)
EntryPaths(es, p) == IF es = <<>> THEN {} ELSE TablePaths(Head(es).val, Append(p, Head(es).key)) \cup EntryPaths(Tail(es), p)

Op(op, path, key, v, i) == [op |-> op, path |-> path, key |-> key, v |-> v, i |-> i]
OpsAt(t, p) ==
  LET tb == GetAt(t, p) IN
  {Op("insert", p, ZZ, Leaf(9), 0), Op("insert", p, ZZ, NewTable(9), 0), Op("sort_values", p, <<>>, Leaf(0), 0), Op("fmt", p, <<>>, Leaf(0), 0), Op("clear", p, <<>>, Leaf(0), 0)}
  \cup UNION {
        {Op("insert", p, tb.v[x].key, Leaf(9), 0), Op("remove", p, tb.v[x].key, Leaf(0), 0), Op("retain_not", p, tb.v[x].key, Leaf(0), 0)}
        \cup (IF tb.v[x].val.k = "t" THEN {Op("to_inline", p, tb.v[x].key, Leaf(0), 0), Op("to_table", p, tb.v[x].key, Leaf(0), 0)} ELSE {})
        \cup (IF tb.v[x].val.k = "a" THEN {Op("array_fmt", p, tb.v[x].key, Leaf(0), 0)} ELSE {})
        \cup (IF tb.v[x].val.k = "a"
              THEN {Op("array_push", p, tb.v[x].key, Leaf(9), 0), Op("aot_push", p, tb.v[x].key, NewTable(9), 0)}
                   \cup {Op("array_insert", p, tb.v[x].key, Leaf(9), i) : i \in {0, 1}}
                   \cup UNION {{Op("array_replace", p, tb.v[x].key, Leaf(9), i), Op("array_remove", p, tb.v[x].key, Leaf(0), i),
                                Op("aot_remove", p, tb.v[x].key, Leaf(0), i), Op("array_retain_not", p, tb.v[x].key, Leaf(0), i),
                                Op("aot_retain_not", p, tb.v[x].key, Leaf(0), i)} : i \in {0, 1}}
              ELSE {})
        : x \in 1..Len(tb.v)}
AllOps(t) == UNION {OpsAt(t, p) : p \in TablePaths(t, <<>>)}

VARIABLES tree, hist
vars == <<tree, hist>>
Init == tree = Start /\ hist = <<>>
RECURSIVE Weight(_)
Weight(x) == IF x = <<>> THEN 0 ELSE (IF Len(Head(x)) > 0 /\ Head(x)[1] >= 0 THEN Head(x)[1] ELSE 3) + 7 * Weight(Tail(x))
Keep(o) == IF Len(hist) = 0 THEN TRUE ELSE (Weight(o.path) + Weight(<<o.key>>) + Len(o.op) + o.i + Len(hist[1].op) + Weight(hist[1].path)) % SAMPLE = 0
\* retain(|..| not this one) is a removal spelled through the predicate API
Canon(o) == [o EXCEPT !.op = CASE o.op = "retain_not" -> "remove" [] o.op = "array_retain_not" -> "array_remove" [] o.op = "aot_retain_not" -> "aot_remove" [] OTHER -> o.op]
Next == /\ Len(hist) < MaxN
        /\ \E o \in AllOps(tree) : Enabled(tree, Canon(o)) /\ Keep(o) /\ tree' = ApplyOp(tree, Canon(o)) /\ hist' = Append(hist, o)
Spec == Init /\ [][Next]_vars

\* laws of the content semantics
LastOp == Canon(hist'[Len(hist')])
SurvivorsKeepOrder == [][LastOp.op # "sort_values" => SurvivorsOrdered(tree, tree')]_vars
OnlyTouchedChanges ==
  [][LastOp.op \in {"insert", "remove"} =>
       \A p \in TablePaths(tree, <<>>) :
         (~IsPrefixPath(p, LastOp.path) /\ ~IsPrefixPath(Append(LastOp.path, LastOp.key), p)) => GetAt(tree', p) = GetAt(tree, p)]_vars
InsertThenRemoveIsIdentity ==
  [][(Len(hist') = 2 /\ hist'[1].op = "insert" /\ hist'[1].key = ZZ /\ LastOp.op = "remove" /\ LastOp.key = ZZ /\ LastOp.path = hist'[1].path)
       => tree' = Start]_vars

Emit == EMIT /\ Len(hist) >= 1 => PrintT(ToJson([doc |-> DocNo, ops |-> hist]))
=============================================================================
