----------------------------- MODULE TomlPrint -----------------------------
(***************************************************************************)
(* What printing an unedited document must yield (C03): the normalised     *)
(* reprint Norm, the comments of a document, and the key regions used to   *)
(* classify a difference that is confined to the spelling of keys.         *)
(***************************************************************************)
EXTENDS TomlLex

\* spans of multi-line strings inside a value
RECURSIVE MlSpansV(_), MlSpansSeq(_), MlSpansEntries(_)
MlSpansV(v) ==
  CASE v.k = "s" -> IF v.ml THEN {v.sp} ELSE {}
    [] v.k = "a" -> MlSpansSeq(v.v)
    [] v.k = "t" -> MlSpansEntries(v.v)
    [] OTHER -> {}
MlSpansSeq(vs) == IF vs = <<>> THEN {} ELSE MlSpansV(Head(vs)) \cup MlSpansSeq(Tail(vs))
MlSpansEntries(es) == IF es = <<>> THEN {} ELSE MlSpansV(Head(es).val) \cup MlSpansEntries(Tail(es))
MlSpans(stmts) == UNION {IF stmts[i].kind = "kv" THEN MlSpansV(stmts[i].val) ELSE {} : i \in 1..Len(stmts)}

InAny(p, spans) == \E s \in spans : p >= s[1] /\ p < s[2]

\* the one text C03 allows for a document whose dotted keys are adjacent:
\* BOM dropped, CR LF -> LF outside multi-line string bodies, final newline added after a statement line
RECURSIVE NormAcc(_, _, _, _)
NormAcc(t, i, ml, acc) ==
  IF i > Len(t) THEN acc
  ELSE IF t[i] = 13 /\ At(t, i + 1) = 10 /\ ~InAny(i, ml) THEN NormAcc(t, i + 1, ml, acc)
  ELSE NormAcc(t, i + 1, ml, Append(acc, t[i]))
Norm(t, p) == NormAcc(t, IF HasBom(t) THEN 2 ELSE 1, MlSpans(p.stmts), <<>>) \o (IF p.open THEN <<10>> ELSE <<>>)

\* ---- comments ----
\* spans of all string-like tokens (string values, key tokens): a "#" inside them is not a comment
RECURSIVE StrSpansV(_), StrSpansSeq(_), StrSpansEntries(_)
StrSpansV(v) ==
  CASE v.k = "s" -> {v.sp}
    [] v.k = "a" -> StrSpansSeq(v.v)
    [] v.k = "t" -> StrSpansEntries(v.v)
    [] OTHER -> {}
StrSpansSeq(vs) == IF vs = <<>> THEN {} ELSE StrSpansV(Head(vs)) \cup StrSpansSeq(Tail(vs))
StrSpansEntries(es) == IF es = <<>> THEN {} ELSE {Head(es).ksp} \cup StrSpansV(Head(es).val) \cup StrSpansEntries(Tail(es))
StrSpans(stmts) ==
  UNION {{stmts[i].path[j].sp : j \in 1..Len(stmts[i].path)} \cup (IF stmts[i].kind = "kv" THEN StrSpansV(stmts[i].val) ELSE {})
           : i \in 1..Len(stmts)}

SpanEndAt(p, spans) == LET s == CHOOSE s \in spans : p >= s[1] /\ p < s[2] IN s[2]
\* the comments of a valid document, in order, each from "#" to the end of its line (exclusive)
RECURSIVE CommentsAcc(_, _, _, _)
CommentsAcc(t, i, ss, acc) ==
  IF i > Len(t) THEN acc
  ELSE IF InAny(i, ss) THEN CommentsAcc(t, SpanEndAt(i, ss), ss, acc)
  ELSE IF t[i] = 35 THEN LET e == SkipNonEol(t, i + 1) IN CommentsAcc(t, e, ss, Append(acc, SubSeq(t, i, e - 1)))
  ELSE CommentsAcc(t, i + 1, ss, acc)
Comments(t, p) == CommentsAcc(t, 1, StrSpans(p.stmts), <<>>)

\* a is a sub-multiset of b (as sequences of comments): greedy in-order matching is what "keeps every
\* comment" needs for an unedited document; fall back to multiset inclusion
Count(x, s) == Cardinality({i \in 1..Len(s) : s[i] = x})
AllKept(a, b) == \A i \in 1..Len(a) : Count(a[i], a) <= Count(a[i], b)

\* ---- key regions: the part of each statement that spells its key path ----
\* kv: from the first key token to the end of the last; headers: everything between the brackets
KeyRegion(t, s) ==
  IF s.kind = "kv" THEN <<s.path[1].sp[1], s.path[Len(s.path)].sp[2]>>
  ELSE IF s.kind = "std" THEN <<s.sp[1] + 1, s.sp[2] - 1>>
  ELSE <<s.sp[1] + 2, s.sp[2] - 2>>
\* key-path regions of inline-table pairs anywhere inside a value
RECURSIVE InlineKrV(_), InlineKrSeq(_), InlineKrEntries(_)
InlineKrV(v) ==
  CASE v.k = "t" -> {v.kr[j].reg : j \in 1..Len(v.kr)} \cup InlineKrEntries(v.v)
    [] v.k = "a" -> InlineKrSeq(v.v)
    [] OTHER -> {}
InlineKrSeq(vs) == IF vs = <<>> THEN {} ELSE InlineKrV(Head(vs)) \cup InlineKrSeq(Tail(vs))
InlineKrEntries(es) == IF es = <<>> THEN {} ELSE InlineKrV(Head(es).val) \cup InlineKrEntries(Tail(es))
\* some inline table spells a dotted prefix twice
RECURSIVE InlineRepV(_), InlineRepSeq(_), InlineRepEntries(_)
InlineRepV(v) ==
  CASE v.k = "t" -> (\E a, b \in 1..Len(v.kr) : a # b /\ Len(v.kr[a].names) > 1 /\ Len(v.kr[b].names) > 1
                                                  /\ v.kr[a].names[1] = v.kr[b].names[1])
                    \/ InlineRepEntries(v.v)
    [] v.k = "a" -> InlineRepSeq(v.v)
    [] OTHER -> FALSE
InlineRepSeq(vs) == IF vs = <<>> THEN FALSE ELSE InlineRepV(Head(vs)) \/ InlineRepSeq(Tail(vs))
InlineRepEntries(es) == IF es = <<>> THEN FALSE ELSE InlineRepV(Head(es).val) \/ InlineRepEntries(Tail(es))

AllRegionSet(t, stmts) ==
  UNION {{KeyRegion(t, stmts[i])} \cup (IF stmts[i].kind = "kv" THEN InlineKrV(stmts[i].val) ELSE {}) : i \in 1..Len(stmts)}
RECURSIVE SortRegs(_)
SortRegs(S) == IF S = {} THEN <<>>
               ELSE LET m == CHOOSE x \in S : \A y \in S : x[1] <= y[1] IN <<m>> \o SortRegs(S \ {m})
\* the text outside the key regions, as a sequence of chunks
RECURSIVE ChunksAcc(_, _, _, _, _)
ChunksAcc(t, regs, i, from, acc) ==
  IF i > Len(regs) THEN Append(acc, SubSeq(t, from, Len(t)))
  ELSE ChunksAcc(t, regs, i + 1, regs[i][2], Append(acc, SubSeq(t, from, regs[i][1] - 1)))
Chunks(t, stmts) == ChunksAcc(t, SortRegs(AllRegionSet(t, stmts)), 1, 1, <<>>)
PathNames(s) == [j \in 1..Len(s.path) |-> s.path[j].s]
\* a and b (both valid) differ at most in how key paths are spelled and spaced
SameUpToKeySpelling(a, pa, b, pb) ==
  /\ Len(pa.stmts) = Len(pb.stmts)
  /\ \A i \in 1..Len(pa.stmts) : pa.stmts[i].kind = pb.stmts[i].kind /\ PathNames(pa.stmts[i]) = PathNames(pb.stmts[i])
  /\ Chunks(a, pa.stmts) = Chunks(b, pb.stmts)

\* ---- repeated spelled segments / interleaving ----
\* absolute key path of each statement (names only; array-of-tables indices ignored)
RECURSIVE AbsPaths(_, _, _, _)
AbsPaths(stmts, i, sec, acc) ==
  IF i > Len(stmts) THEN acc
  ELSE LET s == stmts[i] IN
       IF s.kind = "kv" THEN AbsPaths(stmts, i + 1, sec, Append(acc, [abs |-> sec \o PathNames(s), from |-> Len(sec) + 1]))
       ELSE AbsPaths(stmts, i + 1, PathNames(s), Append(acc, [abs |-> PathNames(s), from |-> 1]))
\* two statements spell the same table segment
HasRepeatedSegment(stmts) ==
  LET ap == AbsPaths(stmts, 1, <<>>, <<>>) IN
  \/ \E i \in 1..Len(stmts) : stmts[i].kind = "kv" /\ InlineRepV(stmts[i].val)
  \/ \E i, j \in 1..Len(ap) : i # j /\
    \E pos \in 1..Len(ap[i].abs) :
      /\ pos >= ap[i].from /\ pos >= ap[j].from /\ pos <= Len(ap[j].abs)
      /\ SubSeq(ap[i].abs, 1, pos) = SubSeq(ap[j].abs, 1, pos)
\* some dotted prefix is left and re-entered (the keys sharing it are not adjacent); ns = sequence of key paths
InterleavedNames(ns) ==
  \E i, j, m \in 1..Len(ns) :
    /\ i < m /\ m < j
    /\ \E n \in 1..(Len(ns[i]) - 1) :
         /\ n <= Len(ns[j]) - 1
         /\ SubSeq(ns[i], 1, n) = SubSeq(ns[j], 1, n)
         /\ ~(n <= Len(ns[m]) - 1 /\ SubSeq(ns[m], 1, n) = SubSeq(ns[i], 1, n))
RECURSIVE InlineIntV(_), InlineIntSeq(_), InlineIntEntries(_)
InlineIntV(v) ==
  CASE v.k = "t" -> InterleavedNames([j \in 1..Len(v.kr) |-> v.kr[j].names]) \/ InlineIntEntries(v.v)
    [] v.k = "a" -> InlineIntSeq(v.v)
    [] OTHER -> FALSE
InlineIntSeq(vs) == IF vs = <<>> THEN FALSE ELSE InlineIntV(Head(vs)) \/ InlineIntSeq(Tail(vs))
InlineIntEntries(es) == IF es = <<>> THEN FALSE ELSE InlineIntV(Head(es).val) \/ InlineIntEntries(Tail(es))
\* within one section (a maximal run of key/value statements), or inside any inline table
Interleaved(stmts) ==
  \/ \E i \in 1..Len(stmts) : stmts[i].kind = "kv" /\ InlineIntV(stmts[i].val)
  \/ \E i, j \in 1..Len(stmts) :
       /\ i < j /\ \A x \in i..j : stmts[x].kind = "kv"
       /\ InterleavedNames([x \in 1..(j - i + 1) |-> PathNames(stmts[i + x - 1])])
=============================================================================
