----------------------------- MODULE Containers -----------------------------
(***************************************************************************)
(* Ordered-container contracts (C16) as pure step relations, shared by the *)
(* model-checked state machine (MCContainers) and by history validation    *)
(* (ValidateHist).                                                         *)
(*                                                                         *)
(* Ordered map with hidden placeholder slots (toml_edit::Table,            *)
(* InlineTable, their TableLike views, toml::Map):                         *)
(*   state  m  = sequence of slots [k |-> key, v |-> value], v = 0 for a    *)
(*               placeholder created by mutable indexing (never visible)   *)
(*   values    = 1, 2 scalars; 3 a table; 4 an array of tables; 5 an array *)
(*   op        = [op, k, v, ks]  (ks: set of keys kept by retain)          *)
(*   MapApply(kind, m, o) = set of [m, ret] the contract allows            *)
(*   ret       = -1 nothing, 0 none/false, 1.. value / true                *)
(* Where the property leaves freedom (the position a key takes when it is  *)
(* inserted over a placeholder; whether retain/remove drop placeholders)   *)
(* the relation is nondeterministic.                                       *)
(***************************************************************************)
EXTENDS Naturals, Integers, Sequences, FiniteSets

Slot(k, v) == [k |-> k, v |-> v]
Visible(m) == SelectSeq(m, LAMBDA s : s.v # 0)
KeysOfM(m) == {m[i].k : i \in 1..Len(m)}
Pos(m, k) == IF \E i \in 1..Len(m) : m[i].k = k THEN CHOOSE i \in 1..Len(m) : m[i].k = k ELSE 0
ValAt(m, k) == IF Pos(m, k) = 0 THEN 0 ELSE m[Pos(m, k)].v
RemoveAt(m, p) == SubSeq(m, 1, p - 1) \o SubSeq(m, p + 1, Len(m))
SlotSet(m, p, v) == [m EXCEPT ![p].v = v]

\* insertion sort of slots by key (keys are strings compared through Ord)
Ord(k) == CASE k = "a" -> 1 [] k = "b" -> 2 [] k = "c" -> 3 [] k = "d" -> 4 [] OTHER -> 9
RECURSIVE InsertSorted(_, _), SortSlots(_)
InsertSorted(s, x) == IF s = <<>> THEN <<x>>
                      ELSE IF Ord(x.k) < Ord(Head(s).k) THEN <<x>> \o s ELSE <<Head(s)>> \o InsertSorted(Tail(s), x)
SortSlots(m) == IF m = <<>> THEN <<>> ELSE InsertSorted(SortSlots(Tail(m)), Head(m))

\* stable sort by the key "value mod 3" (of a slot when slot = TRUE, of an integer otherwise)
Key3(x, slot) == IF slot THEN x.v % 3 ELSE x % 3
RECURSIVE InsertStable(_, _, _), StableSort3(_, _)
InsertStable(s, x, slot) == IF s = <<>> THEN <<x>>
                            ELSE IF Key3(x, slot) < Key3(Head(s), slot) THEN <<x>> \o s ELSE <<Head(s)>> \o InsertStable(Tail(s), x, slot)
StableSort3(s, slot) == IF s = <<>> THEN <<>> ELSE InsertStable(StableSort3(SubSeq(s, 1, Len(s) - 1), slot), s[Len(s)], slot)

IsSortedKind(kind) == kind = "map_sorted"
NormKind(kind, m) == IF IsSortedKind(kind) THEN SortSlots(m) ELSE m

\* outcomes of putting value v under key k
PutOutcomes(m, k, v) ==
  LET p == Pos(m, k) IN
  IF p = 0 THEN {Append(m, Slot(k, v))}
  ELSE IF m[p].v # 0 THEN {SlotSet(m, p, v)}                        \* existing key keeps its position
  ELSE {SlotSet(m, p, v), Append(RemoveAt(m, p), Slot(k, v))}        \* over a placeholder: in place or appended

DropPlaceholders(m) == SelectSeq(m, LAMBDA s : s.v # 0)
R(m, ret) == [m |-> m, ret |-> ret]
Bool(b) == IF b THEN 1 ELSE 0
IsTableVal(v) == v = 3
IsAotVal(v) == v = 4
IsValueVal(v) == v \in {1, 2, 5}

MapApply(kind, m0, o) ==
  LET m == m0
      k == o.k
      p == Pos(m, k)
      cur == ValAt(m, k)
      out ==
        CASE o.op \in {"insert", "index_assign", "insert_formatted", "get_or_insert_absent"} ->
               {R(x, IF o.op = "index_assign" THEN 0 - 1 ELSE cur) : x \in PutOutcomes(m, k, o.v)}
          [] o.op \in {"remove", "remove_entry", "entry_remove"} ->
               IF cur # 0 THEN {R(RemoveAt(m, p), cur)}
               ELSE IF p # 0 THEN {R(m, 0), R(RemoveAt(m, p), 0)}
               ELSE {R(m, 0)}
          [] o.op \in {"entry_or_insert", "get_or_insert"} ->
               IF cur # 0 THEN {R(m, cur)} ELSE {R(x, o.v) : x \in PutOutcomes(m, k, o.v)}
          [] o.op = "entry_insert" ->      \* Entry::Occupied(e) => e.insert(v) ; Entry::Vacant(e) => e.insert(v)
               {R(x, cur) : x \in PutOutcomes(m, k, o.v)}
          [] o.op = "index_mut" ->          \* container[k] without assignment: may create a placeholder
               IF p # 0 THEN {R(m, 0 - 1)} ELSE {R(Append(m, Slot(k, 0)), 0 - 1), R(m, 0 - 1)}
          [] o.op = "retain" ->
               {R(SelectSeq(m, LAMBDA s : s.k \in o.ks), 0 - 1),
                R(SelectSeq(m, LAMBDA s : s.k \in o.ks \/ s.v = 0), 0 - 1)}
          [] o.op = "sort_values" -> {R(SortSlots(m), 0 - 1)}
          \* the comparator sees entries only: the visible entries end up in key order, where the placeholders
          \* go is the implementation's business (before the entries, among them by key, after them)
          [] o.op = "sort_values_by_key" ->
               LET vis == SortSlots(Visible(m))
                   ph == SelectSeq(m, LAMBDA x : x.v = 0) IN
               {R(ph \o vis, 0 - 1), R(SortSlots(m), 0 - 1), R(vis \o ph, 0 - 1)}
          \* sort_values_by with a comparator that looks at value mod 3 only: the sort is stable
          [] o.op = "sort_values_by_mod3" -> {R(StableSort3(m, TRUE), 0 - 1)}
          [] o.op = "clear" -> {R(<<>>, 0 - 1)}
          [] o.op = "get" -> {R(m, cur)}
          [] o.op = "contains_key" -> {R(m, Bool(cur # 0))}
          [] o.op = "contains_table" -> {R(m, Bool(IsTableVal(cur)))}
          [] o.op = "contains_value" -> {R(m, Bool(IsValueVal(cur)))}
          [] o.op = "contains_array_of_tables" -> {R(m, Bool(IsAotVal(cur)))}
          [] o.op = "extend" -> {R(y, 0 - 1) : y \in UNION {PutOutcomes(x, o.k2, o.v) : x \in PutOutcomes(m, k, o.v)}}
  IN {R(NormKind(kind, r.m), r.ret) : r \in out}

\* what a caller can observe
MapObs(m, keys) == [len |-> Len(Visible(m)), empty |-> Len(Visible(m)) = 0,
                    iter |-> [i \in 1..Len(Visible(m)) |-> <<Visible(m)[i].k, Visible(m)[i].v>>],
                    get |-> [k \in keys |-> ValAt(m, k)],
                    has |-> [k \in keys |-> ValAt(m, k) # 0],
                    printed |-> [i \in 1..Len(Visible(m)) |-> SortSlots(Visible(m))[i].k]]

\* ---- laws (checked by TLC on the state machine) ----
NoDuplicateKeys(m) == \A i, j \in 1..Len(m) : i # j => m[i].k # m[j].k
IsSubseq(a, b) ==   \* a is a subsequence of b (both without duplicates)
  /\ \A i \in 1..Len(a) : \E j \in 1..Len(b) : b[j] = a[i]
  /\ \A i, j \in 1..Len(a) : i < j => (CHOOSE x \in 1..Len(b) : b[x] = a[i]) < (CHOOSE x \in 1..Len(b) : b[x] = a[j])
VisKeys(m) == [i \in 1..Len(Visible(m)) |-> Visible(m)[i].k]

(***************************************************************************)
(* Sequences (toml_edit::Array, ArrayOfTables): state = Seq of values.     *)
(***************************************************************************)
SeqApply(s, o) ==
  CASE o.op = "push" -> {R(Append(s, o.v), 0 - 1)}
    [] o.op = "insert_at" -> {R(SubSeq(s, 1, o.i) \o <<o.v>> \o SubSeq(s, o.i + 1, Len(s)), 0 - 1)}   \* i is 0-based
    [] o.op = "replace" -> {R([s EXCEPT ![o.i + 1] = o.v], s[o.i + 1])}
    [] o.op = "remove_at" -> {R(SubSeq(s, 1, o.i) \o SubSeq(s, o.i + 2, Len(s)), s[o.i + 1])}
    [] o.op = "retain" -> {R(SelectSeq(s, LAMBDA v : v \in o.vs), 0 - 1)}
    [] o.op = "clear" -> {R(<<>>, 0 - 1)}
    [] o.op = "get_at" -> {R(s, IF o.i + 1 <= Len(s) THEN s[o.i + 1] ELSE 0)}
    [] o.op = "extend" -> {R(s \o <<o.v, o.v2>>, 0 - 1)}
    [] o.op \in {"sort_by_key_mod3", "sort_by_mod3"} -> {R(StableSort3(s, FALSE), 0 - 1)}
SeqEnabled(s, o) ==
  CASE o.op = "insert_at" -> o.i <= Len(s)
    [] o.op \in {"replace", "remove_at"} -> o.i + 1 <= Len(s)
    [] OTHER -> TRUE
SeqObs(s) == [len |-> Len(s), empty |-> Len(s) = 0, iter |-> s]
=============================================================================
