#!/bin/bash
# runs the thorough tier of the given checks one after the other and prints a one-line summary per check
for p in "$@"; do
  s=$(date +%s)
  out=$(python3 check.py $p --tier thorough 2>&1); rc=$?
  echo "THOROUGH $p rc=$rc $(( $(date +%s) - s ))s $(echo "$out" | grep -c '^VIOLATION') violations; $(echo "$out" | tail -1 | cut -c1-200)"
  echo "$out" | grep -E '^VIOLATION|TOOL-ERROR|KNOWN' | head -4 | cut -c1-300
done
