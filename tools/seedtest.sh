#!/bin/bash
# usage: tools/seedtest.sh <patch.diff> <Cnn> [<Cnn>...]   -- applies the seeded change to /repo, runs the quick checks, undoes it
set -u
patch=$1; shift
cd /repo || exit 2
if ! git diff --quiet; then echo "repo not clean"; exit 2; fi
git apply "$patch" || { echo "patch does not apply"; exit 2; }
cd /verif
for p in "$@"; do
  # evidence must describe the unchanged tree: keep it aside while a seeded change is applied
  [ -f evidence/$p.json ] && cp evidence/$p.json /verif/out/evidence-$p.keep
  out=$(python3 check.py "$p" --tier ${TIER:-quick} 2>&1); rc=$?
  [ -f /verif/out/evidence-$p.keep ] && mv /verif/out/evidence-$p.keep evidence/$p.json
  nv=$(echo "$out" | grep -c '^VIOLATION')
  echo "== $p rc=$rc violations=$nv"
  echo "$out" | grep -E '^VIOLATION|KNOWN-FINDING|TOOL-ERROR' | head -${SHOW:-4} | cut -c1-260
done
git -C /repo checkout -- . 
git -C /repo status --short | head
