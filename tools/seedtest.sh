#!/bin/bash
# usage: tools/seedtest.sh <patch.diff> <Cnn> [<Cnn>...]
# Runs the quick checks against a scratch worktree of /repo with the seeded change applied (VERIF_REPO): /repo
# itself is never modified, so other checks may build from it at the same time.  The harness is rebuilt for the
# scratch tree (first check of a seed: a few minutes).
set -u
patch=$(readlink -f "$1"); shift
wt=/tmp/seedrepo-$$
git -C /repo worktree add -q --detach $wt HEAD || exit 2
trap 'git -C /repo worktree remove --force '$wt' 2>/dev/null; git -C /repo worktree prune' EXIT
git -C $wt apply "$patch" || { echo "patch does not apply"; exit 2; }
cd /verif
for p in "$@"; do
  # evidence must describe the unchanged tree: keep it aside while a seeded change is checked
  [ -f evidence/$p.json ] && cp evidence/$p.json /verif/out/evidence-$p.keep.$$
  out=$(VERIF_REPO=$wt python3 check.py "$p" --tier ${TIER:-quick} 2>&1); rc=$?
  [ -f /verif/out/evidence-$p.keep.$$ ] && mv /verif/out/evidence-$p.keep.$$ evidence/$p.json
  nv=$(echo "$out" | grep -c '^VIOLATION')
  echo "== $p rc=$rc violations=$nv"
  echo "$out" | grep -E '^VIOLATION|KNOWN-FINDING|TOOL-ERROR' | head -${SHOW:-4} | cut -c1-260
done
