#!/bin/bash
# usage: tools/seedsweep.sh <seed> [props...] : runs the quick checks with another VERIF_SEED and prints one line per check
seed=$1; shift
props=${@:-C01 C02 C03 C04 C05 C06 C07 C08 C09 C10 C11 C12 C13 C14 C15 C16 C17 C19 C20}
for p in $props; do
  out=$(VERIF_SEED=$seed python3 check.py $p --tier quick 2>&1); rc=$?
  echo "seed=$seed $p rc=$rc $(echo "$out" | grep -c '^VIOLATION') violations; $(echo "$out" | tail -1)"
  echo "$out" | grep -E '^VIOLATION|TOOL-ERROR' | head -3
done
