#!/usr/bin/env python3
"""Confirms a seeded change in a scratch worktree: the patch applies and builds, the pinned suite passes with it,
the demonstration fails with it and passes without it.  Records the outcome in seeded/<id>/meta.json ("confirmed")."""
import sys, os, re, json, subprocess, shutil
seed = os.path.abspath(sys.argv[1])
name = os.path.basename(seed)
wt = "/tmp/cw-" + name
def sh(cmd, cwd=None):
    p = subprocess.run(cmd, shell=True, cwd=cwd, stdout=subprocess.PIPE, stderr=subprocess.STDOUT, text=True)
    return p.returncode, p.stdout
subprocess.run("git -C /repo worktree remove --force %s 2>/dev/null; git -C /repo worktree add -q --detach %s HEAD" % (wt, wt), shell=True)
try:
    demo = open(os.path.join(seed, "demo.rs")).read()
    m = re.search(r"(crates/\S+\.rs)", demo)
    dest = m.group(1)
    stem = os.path.splitext(os.path.basename(dest))[0]
    pkg = dest.split("/")[1]
    feat = " --features preserve_order" if "--features preserve_order" in demo else (" --features perf" if "--features perf" in demo else "")
    if "--no-default-features --features parse" in demo:
        feat = " --no-default-features --features parse"
    if "/examples/" in dest:
        run = "cargo run -q -p %s --example %s --offline%s" % (pkg, stem, feat)
    else:
        run = "cargo test -q -p %s --test %s --offline%s" % (pkg, stem, feat)
    os.makedirs(os.path.dirname(os.path.join(wt, dest)), exist_ok=True)
    shutil.copy(os.path.join(seed, "demo.rs"), os.path.join(wt, dest))
    manifest = os.path.join(wt, "crates", pkg, "Cargo.toml")
    if "[[test]]" in demo and "/tests/" in dest:
        # the crate sets autotests = false: the demonstration names the [[test]] entry it needs
        with open(manifest, "a") as f:
            f.write('\n[[test]]\nname = "%s"\nrequired-features = ["parse", "display"]\n' % stem)
    rc_clean, out_clean = sh(run, wt)
    rc_apply, out_apply = sh("git apply %s" % os.path.join(seed, "patch.diff"), wt)
    rc_demo, out_demo = sh(run, wt)
    os.remove(os.path.join(wt, dest))
    sh("git checkout -- %s" % manifest, wt)
    rc_suite, out_suite = sh("cargo nextest run --workspace --no-fail-fast --tool-config-file pb:/w/lib/nextest.toml --profile pb --test-threads 8 --offline 2>&1 | tail -3", wt)
    passed = re.search(r"(\d+) tests run: (\d+) passed", out_suite)
    res = {"demo_cmd": run, "demo_on_clean_rc": rc_clean, "patch_applies": rc_apply == 0, "demo_with_patch_rc": rc_demo,
           "suite_with_patch": passed.group(0) if passed else out_suite[-300:],
           "ok": rc_clean == 0 and rc_apply == 0 and rc_demo != 0 and bool(passed) and passed.group(1) == passed.group(2)}
    meta_p = os.path.join(seed, "meta.json")
    meta = json.load(open(meta_p))
    meta["confirmed"] = res
    json.dump(meta, open(meta_p, "w"), indent=1)
    print(name, json.dumps(res))
finally:
    subprocess.run("git -C /repo worktree remove --force %s; git -C /repo worktree prune" % wt, shell=True)
