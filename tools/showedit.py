#!/usr/bin/env python3
"""Prints a C08 replay file readably."""
import json, sys
sys.path.insert(0, '/verif/lib')
from vlib import core
r = json.load(open(sys.argv[1]))
d = r['detail']
print(r['what'], {k: v for k, v in d.items() if k not in ('text', 'lost')})
def pth(p): return "/".join(core.uncps(x) if not x or x[0] >= 0 else str(x[1]) for x in p)
print([(o['op'], pth(o['path']), core.uncps(o['key']), o['v'].get('k'), o['i']) for o in r['event']['ops']])
if 'lost' in d: print("LOST:", repr(core.uncps(d['lost'])))
print(core.uncps(d.get('text', [])))
