#!/usr/bin/env python3
"""Regenerates /verif/MANIFEST.json from the table below (keeps the file valid at all times)."""
import json, os
ROOT = os.path.dirname(os.path.dirname(os.path.abspath(__file__)))
props = [json.loads(l) for l in open(os.path.join(ROOT, "properties.jsonl"))]

CLAIMS = {
 "C01": ("model_checking",
  "The TLA+ recogniser TomlLex+TomlDef (transcribed from toml.abnf and the TOML 1.0.0 prose, self-checked on every run against the 552 labelled UTF-8 files of toml-test and against its own generator TomlGen) is evaluated by TLC on every text; texts are chosen by TLC exhaustively within small scopes (every behaviour of the TomlDoc machine, every spelling of every abstract scalar in document templates, container layouts, decor slots, every single-symbol mutation of a sample) and by the harness (corpus, seeded mutants); the verdict of every front end (DocumentMut, ImDocument, toml::from_str, toml_edit::de::from_str/from_slice) must equal the specification's. Exhaustive inside the stated scopes, sampled beyond.",
  "Trusted: TLC, the specification, harness drivers. Class U1 texts skipped and counted. Not covered: coverage-guided inputs; nesting limit L3 is exercised by C05.",
  "TLC-generated inputs (MCTomlDoc, MCTomlGen) + TLC trace validation (Validate.tla) of recorded parse events", "DESIGN.md 5/C01"),
 "C02": ("model_checking",
  "Same runs as C01; the projected ordered tree of every front end is compared by TLC with the tree the specification's semantic actions assign to the text (keys, nesting, order, types, exact scalar values).",
  "Floats with >15 significant digits or subnormal magnitude are compared by class, sign and order of magnitude only. Trusted: Rust {:e} formatting of f64; projections.",
  "TLA+ decoder (TomlLex semantic actions + TomlDef tree) + TLC trace validation of recorded parse events", "DESIGN.md 5/C02"),
 "C03": ("model_checking",
  "For every text the specification accepts (corpus, generator spellings/layouts/decor, all TomlDoc statement orderings in a uniform and a respelled family), TLC validates the recorded print(parse(text)) and its second generation: valid, same tree, every comment kept, fixed point, and equal to Norm(text) (BOM dropped, CRLF->LF outside multi-line strings, final newline) unless dotted keys are interleaved.",
  "Known finding F08 (repeated key segment respelled) is recognised by a structural rule evaluated in TLC (SameUpToKeySpelling + HasRepeatedSegment); any other difference is a violation.",
  "TLA+ Norm/Comments operators (TomlPrint.tla) + TLC trace validation of recorded roundtrip events", "DESIGN.md 5/C03"),
 "C09": ("model_checking",
  "C09 is the action property NoOverwrite of the TomlDoc state machine, model-checked by TLC; every behaviour of the machine up to the bound (all statement sequences over all key paths) is rendered to text, parsed by the real front ends, and verdict and merged tree are validated by TLC against the specification. Exhaustive within MaxN/MaxPath.",
  "Bounds: quick N<=3 with paths<=3 on {a,b}; thorough N<=4. U1 sequences skipped and counted.",
  "TLA+ state machine (TomlDoc) model-checked with TLC; exhaustive behaviour replay into the parser; TLC trace validation", "DESIGN.md 5/C09"),
}
try:
    from claims_extra import EXTRA  # noqa
    CLAIMS.update(EXTRA)
except ImportError:
    pass

NA_REASON = {}

def chk(pid):
    cat, text, note, tech, ref = CLAIMS[pid]
    return {"property_id": pid, "quick_cmd": "python3 check.py %s --tier quick" % pid,
            "thorough_cmd": "python3 check.py %s --tier thorough" % pid,
            "evidence_file": "evidence/%s.json" % pid,
            "replay_cmd_template": "python3 check.py %s --replay {path}" % pid, "engine": "tla-conformance",
            "level_claimed": {"category": cat, "text": text, "design_ref": ref}, "level_note": note, "technique": tech}

ids = [p["id"] for p in props]
m = {"version": 1,
     "setup_cmd": "cd /verif/harness && cargo build --release --offline --features preserve_order && cargo build --release --offline",
     "hooks": {"guard": "toml_rs_toml_verif",
               "enable": "--cfg toml_rs_toml_verif via /verif/harness/.cargo/config.toml rustflags (no hook code is needed: the abstract state is observable through the public API)",
               "baseline_off_cmd": "cd /repo && cargo nextest run --workspace --no-fail-fast --tool-config-file pb:/w/lib/nextest.toml --profile pb --test-threads 8 --offline",
               "source_commits": [], "add_only": True},
     "engines": [{"name": "tla-conformance", "path": "check.py", "serves_properties": [i for i in ids if i in CLAIMS],
                  "kind_free_text": "TLA+ specification under spec/, TLC model checking + generation of inputs/behaviours, Rust harness under harness/ recording events from the real API, TLC trace validation (Validate.tla, Trace*.tla)"}],
     "checks": [chk(i) for i in ids if i in CLAIMS],
     "not_applicable": [{"property_id": i, "reason": NA_REASON.get(i, "check not built yet in this round (work in progress; DESIGN.md section 9 build order)")} for i in ids if i not in CLAIMS],
     "notes": "All checks: python3 check.py <id> [--tier quick|thorough] [--replay PATH]; VERIF_SEED/VERIF_TIER honoured. Fixes made in /repo: see known_findings.json (status fixed)."}
json.dump(m, open(os.path.join(ROOT, "MANIFEST.json"), "w"), indent=1)
print("claimed:", [i for i in ids if i in CLAIMS])
