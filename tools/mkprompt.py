import json,sys,re
pid=sys.argv[1]; tag=sys.argv[2]   # e.g. C03 wt3-c03
props={json.loads(l)['id']:json.loads(l) for l in open('/verif/properties.jsonl')}
p=props[pid]
tmpl=open('/verif/tools/seed_prompt_template.txt').read()
# replace the property paragraph
a=tmpl.index("PROPERTY C01"); b=tmpl.index("TASK:")
body="PROPERTY %s: %s\nStatement: %s\nQuantified over: %s\n\n"%(pid,p['title'],p['statement'],p['quantifier']['text'])
t=tmpl[:a]+body+tmpl[b:]
t=t.replace("wt2-c01",tag).replace('"property": "C01"','"property": "%s"'%pid)
# mechanisms already used (off limits)
rows=[l for l in open('/verif/DESIGN.md') if re.match(r"\| (r[0-9]-)?c%s-[AB] \|"%pid[1:].lower(), l)]
if rows:
    t+="\n\nAlready used in an earlier round, so choose DIFFERENT mechanisms: "+"; ".join(r.split("|")[2].strip() for r in rows)+"."
open('/tmp/prompt5-%s.txt'%pid,'w').write(t)
print(t[-600:])
