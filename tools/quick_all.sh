#!/bin/bash
# runs the quick tier of every check on /repo as it stands (writes evidence/<id>.json) and prints one line per check
for p in C01 C02 C03 C04 C05 C06 C07 C08 C09 C10 C11 C12 C13 C14 C15 C16 C17 C18 C19 C20; do
  s=$(date +%s)
  out=$(python3 check.py $p --tier quick 2>&1); rc=$?
  echo "QUICK $p rc=$rc $(( $(date +%s) - s ))s $(echo "$out" | grep -c '^VIOLATION') violations; $(echo "$out" | tail -1 | cut -c1-160)"
  echo "$out" | grep -E '^VIOLATION|TOOL-ERROR' | head -3 | cut -c1-250
done
