#!/usr/bin/env python3
"""Prints edit mismatches of a json list readably: showmism.py file what [index]"""
import json,sys
sys.path.insert(0,'/verif/lib')
from vlib import core
m=json.load(open(sys.argv[1]))
want=sys.argv[2]; idx=int(sys.argv[3]) if len(sys.argv)>3 else 0
def pth(p): return "/".join(core.uncps(x) if not x or x[0] >= 0 else str(x[1]) for x in p)
sel=[x for x in m if x['what']==want or (x['what'],x['detail'].get('op'))==tuple(want.split(':'))]
x=sel[idx]
d=x['detail']; ev=x['event']
print("=====",x['what'],ev['id'],{k:v for k,v in d.items() if k not in('text','lost')}, "of", len(sel))
print("START:\n"+core.uncps(ev['start']))
for s in ev['steps'][:d['step']]:
    print("OP:",s['op'],pth(s['path']),repr(core.uncps(s['key'])),s['v'].get('k'),s['i'],s['res'])
    print(core.uncps(s['text']))
if 'lost' in d: print("LOST:",repr(core.uncps(d['lost'])))
